(* Proofs for C11: Prune / PruneFrom / RemoveUninteresting of M_Prune meet the frame-level rules
   of S_Prune outside the classes of the known findings F14 / F15. *)
From Coq Require Import Lia.
From PV Require Import M_Filter M_Prune S_Filter S_Prune L_FilterBase.
Open Scope Z_scope.
Open Scope list_scope.

(* ================================================================ generic: from_first *)
Lemma existsb_flat_map {A B} (m : B -> bool) (F : A -> list B) (l : list A) :
  existsb m (flat_map F l) = existsb (fun x => existsb m (F x)) l.
Proof. induction l as [|x r IH]; [reflexivity|]. cbn. now rewrite existsb_app, IH. Qed.

Lemma from_first_ext_in {A} (f g : A -> bool) (l : list A) :
  (forall x, In x l -> f x = g x) -> from_first f l = from_first g l.
Proof.
  induction l as [|x r IH]; intros H; [reflexivity|].
  cbn. rewrite (H x (or_introl eq_refl)). destruct (g x); [reflexivity|].
  apply IH. intros y Hy. apply H. now right.
Qed.

Lemma drop_to_first_app {A} (m : A -> bool) (a b : list A) :
  existsb m a = true -> drop_to_first m (a ++ b) = drop_to_first m a ++ b.
Proof.
  induction a as [|x r IH]; cbn; [discriminate|].
  destruct (m x); cbn; [reflexivity|exact IH].
Qed.

Lemma drop_to_first_skip {A} (m : A -> bool) (a b : list A) :
  existsb m a = false -> drop_to_first m (a ++ b) = drop_to_first m b.
Proof.
  induction a as [|x r IH]; cbn; [reflexivity|]. intros H.
  apply orb_false_iff in H. destruct H as [H1 H2]. now rewrite H1, IH.
Qed.

Lemma from_first_map {A B} (f : A -> bool) (mk : A -> B) (m : B -> bool) (ls : list A) :
  (forall x, m (mk x) = f x) ->
  match from_first f ls with
  | Some r => existsb m (map mk ls) = true /\ map mk r = drop_to_first m (map mk ls) /\ r <> []
  | None => existsb m (map mk ls) = false
  end.
Proof.
  intros H. induction ls as [|x r IH]; [reflexivity|].
  cbn [from_first map existsb drop_to_first]. rewrite H. destruct (f x); cbn.
  - split; [reflexivity|]. split; [reflexivity|discriminate].
  - exact IH.
Qed.

(* ================================================================ PruneFrom on one sample,
   abstractly: F / F' = frames of a location id before / after the surgery *)
Section PruneFromSample.
  Variable mt : frame -> bool.
  Variables F F' : Z -> list frame.
  Variable flag : Z -> bool.

  Definition pf_trimmed (id : Z) : bool :=
    existsb mt (F id) && match F id with f :: _ => negb (mt f) | [] => false end.
  Definition pf_class (locs : list Z) : bool :=
    match from_first flag locs with
    | Some (_ :: rest) => existsb pf_trimmed rest
    | _ => false
    end.

  Lemma prune_from_sample (locs : list Z) :
    (forall id, In id locs -> flag id = existsb mt (F id)) ->
    (forall id, In id locs -> F' id = if existsb mt (F id) then drop_to_first mt (F id) else F id) ->
    pf_class locs = false ->
    flat_map F' (match from_first flag locs with Some x => x | None => locs end)
    = prune_from_frames mt (flat_map F locs).
  Proof.
    unfold pf_class, prune_from_frames.
    induction locs as [|id r IH]; intros Hflag HF' Hcls; [reflexivity|].
    assert (Hflag_r : forall j, In j r -> flag j = existsb mt (F j)) by (intros j Hj; apply Hflag; now right).
    assert (HF'_r : forall j, In j r -> F' j = if existsb mt (F j) then drop_to_first mt (F j) else F j)
      by (intros j Hj; apply HF'; now right).
    cbn [from_first] in *. rewrite (Hflag id (or_introl eq_refl)) in *.
    cbn [flat_map]. rewrite existsb_app.
    destruct (existsb mt (F id)) eqn:E.
    - cbn [orb flat_map]. rewrite (HF' id (or_introl eq_refl)), E.
      rewrite drop_to_first_app by exact E. f_equal.
      apply flat_map_ext_in. intros j Hj. rewrite (HF'_r j Hj).
      destruct (existsb mt (F j)) eqn:Ej; [|reflexivity].
      pose proof (existsb_false_forall _ _ Hcls j Hj) as Ht. unfold pf_trimmed in Ht.
      rewrite Ej in Ht. cbn [andb] in Ht.
      destruct (F j) as [|f t]; [discriminate|]. apply negb_false_iff in Ht. cbn. now rewrite Ht.
    - cbn [orb]. rewrite drop_to_first_skip by exact E.
      specialize (IH Hflag_r HF'_r Hcls).
      assert (Hex : existsb flag r = existsb mt (flat_map F r)).
      { rewrite existsb_flat_map. apply existsb_ext_in. exact Hflag_r. }
      destruct (from_first flag r) as [x|] eqn:Eff.
      + apply from_first_some in Eff. rewrite Eff in Hex. rewrite <- Hex in *. exact IH.
      + apply from_first_none in Eff. rewrite Eff in Hex. rewrite <- Hex in *.
        cbn [flat_map]. rewrite IH. f_equal. rewrite (HF' id (or_introl eq_refl)), E. reflexivity.
  Qed.
End PruneFromSample.

(* ================================================================ PruneFrom on a profile *)
Section PruneFromProfile.
  Variable M : string -> string -> bool.
  Variable p : profile.
  Variable re : string.
  Hypothesis Hwf : wf_profile p = true.

  Let mt := frame_from M p re.
  Let g := fun l => match prune_from_loc M p re l with Some l' => l' | None => l end.

  Lemma g_id l : l_id (g l) = l_id l.
  Proof. unfold g, prune_from_loc. destruct (from_first _ _); reflexivity. Qed.

  Lemma frame_from_mk (l : location) (ln : line) : mt (mk_frame l ln) = pf_line M p re ln.
  Proof.
    unfold mt, frame_from, frame_fn, pf_line, mk_frame. cbn.
    destruct (find_function p (ln_fn ln)) as [f|]; [|reflexivity].
    destruct (String.eqb (f_name f) ""); reflexivity.
  Qed.

  Lemma pf_loc_facts (l : location) :
    is_some (prune_from_loc M p re l) = existsb mt (loc_frames l)
    /\ loc_frames (g l) = if existsb mt (loc_frames l) then drop_to_first mt (loc_frames l) else loc_frames l.
  Proof.
    unfold g, prune_from_loc.
    destruct (l_lines l) as [|ln0 lns] eqn:El.
    - cbn [from_first is_some]. unfold loc_frames. rewrite El. cbn. split; reflexivity.
    - assert (Hne : l_lines l <> []) by (rewrite El; discriminate).
      rewrite <- El. rewrite (loc_frames_lines l Hne).
      pose proof (from_first_map (pf_line M p re) (mk_frame l) mt (l_lines l) (frame_from_mk l)) as H.
      destruct (from_first (pf_line M p re) (l_lines l)) as [r|].
      + destruct H as [H1 [H2 H3]]. rewrite H1. cbn [is_some]. split; [reflexivity|].
        rewrite (loc_frames_set_lines l r H3). exact H2.
      + rewrite H. cbn [is_some]. split; [reflexivity|]. now rewrite (loc_frames_lines l Hne).
  Qed.

  Lemma prune_from_sample_frames (s : sample) :
    In s (p_sample p) -> in_F15_sample M p re s = false ->
    sample_frames (prune_from M p re)
      (match from_first (id_flag (fun l => is_some (prune_from_loc M p re l)) (p_location p)) (s_loc s) with
       | Some locs => set_sample_locs s locs | None => s end)
    = prune_from_frames mt (sample_frames p s).
  Proof.
    intros Hs Hcls.
    set (flag := id_flag (fun l => is_some (prune_from_loc M p re l)) (p_location p)).
    set (F := loc_frames_of p).
    set (F' := fun id => match find_location p id with Some l => loc_frames (g l) | None => [] end).
    assert (Hflag : forall id, In id (s_loc s) -> flag id = existsb mt (F id)).
    { intros id Hid. destruct (wf_present p s id Hwf Hs Hid) as [l Hl].
      unfold flag. rewrite (id_flag_find _ _ id l (wf_nodup p Hwf) Hl).
      unfold F, loc_frames_of. rewrite Hl. apply pf_loc_facts. }
    assert (HF' : forall id, In id (s_loc s) -> F' id = if existsb mt (F id) then drop_to_first mt (F id) else F id).
    { intros id Hid. destruct (wf_present p s id Hwf Hs Hid) as [l Hl].
      unfold F', F, loc_frames_of. rewrite Hl. apply pf_loc_facts. }
    assert (Hc : pf_class mt F flag (s_loc s) = false).
    { unfold pf_class. unfold in_F15_sample in Hcls. fold mt in Hcls. fold F in Hcls.
      rewrite (from_first_ext_in flag (fun id => existsb mt (F id)) (s_loc s) Hflag). exact Hcls. }
    pose proof (prune_from_sample mt F F' flag (s_loc s) Hflag HF' Hc) as H.
    unfold sample_frames. unfold prune_from. fold flag.
    rewrite (frames_of_rewritten p g _ _ g_id). fold F'.
    unfold frames_of at 1. fold (loc_frames_of p). fold F. rewrite <- H.
    destruct (from_first flag (s_loc s)); reflexivity.
  Qed.

  Lemma prune_from_meets_spec_l :
    in_F15 M p re = false ->
    fsamples (prune_from M p re) = spec_prune_from M p re (fsamples p).
  Proof.
    intros Hcls. unfold spec_prune_from, fsamples. rewrite map_map.
    unfold prune_from at 2. cbn [p_sample set_samples]. rewrite map_map.
    apply map_ext_in. intros s Hs.
    assert (Hc : in_F15_sample M p re s = false).
    { unfold in_F15 in Hcls. exact (existsb_false_forall _ _ Hcls s Hs). }
    pose proof (prune_from_sample_frames s Hs Hc) as H.
    unfold fsample_of, on_frames. cbn [fs_val fs_label fs_numlabel fs_numunit fs_frames].
    fold mt. rewrite <- H.
    destruct (from_first _ (s_loc s)); reflexivity.
  Qed.
End PruneFromProfile.

(* ================================================================ generic: after_last, cut_root *)
Fixpoint before_first {A} (m : A -> bool) (l : list A) : list A :=
  match l with
  | [] => []
  | x :: r => if m x then [] else x :: before_first m r
  end.

Lemma existsb_rev {A} (m : A -> bool) (l : list A) : existsb m (rev l) = existsb m l.
Proof.
  induction l as [|x r IH]; [reflexivity|]. cbn. rewrite existsb_app, IH. cbn.
  rewrite orb_false_r. apply orb_comm.
Qed.

Lemma forallb_rev {A} (m : A -> bool) (l : list A) : forallb m (rev l) = forallb m l.
Proof.
  induction l as [|x r IH]; [reflexivity|]. cbn. rewrite forallb_app, IH. cbn.
  rewrite andb_true_r. apply andb_comm.
Qed.

Lemma before_first_app_hit {A} (m : A -> bool) (a b : list A) :
  existsb m a = true -> before_first m (a ++ b) = before_first m a.
Proof.
  induction a as [|x r IH]; cbn; [discriminate|]. destruct (m x); cbn; [reflexivity|].
  intros H. now rewrite IH.
Qed.

Lemma before_first_app_miss {A} (m : A -> bool) (a b : list A) :
  existsb m a = false -> before_first m (a ++ b) = a ++ before_first m b.
Proof.
  induction a as [|x r IH]; cbn; [reflexivity|]. intros H. apply orb_false_iff in H.
  destruct H as [H1 H2]. now rewrite H1, IH.
Qed.

Lemma before_first_map {A B} (f : A -> bool) (mk : A -> B) (m : B -> bool) (l : list A) :
  (forall x, m (mk x) = f x) -> before_first m (map mk l) = map mk (before_first f l).
Proof.
  intros H. induction l as [|x r IH]; [reflexivity|]. cbn. rewrite H.
  destruct (f x); [reflexivity|]. cbn. now rewrite IH.
Qed.

Lemma after_last_none {A} (f : A -> bool) (l : list A) :
  after_last f l = None <-> existsb f l = false.
Proof.
  induction l as [|x r IH]; cbn; [tauto|].
  destruct (after_last f r) as [r'|] eqn:E.
  - split; [discriminate|]. intros H. apply orb_false_iff in H. destruct H as [_ H].
    apply IH in H. discriminate.
  - assert (Hr : existsb f r = false) by now apply IH.
    rewrite Hr, orb_false_r. destruct (f x); split; congruence.
Qed.

Lemma after_last_some {A} (f : A -> bool) (l r : list A) :
  after_last f l = Some r -> existsb f l = true /\ rev r = before_first f (rev l).
Proof.
  revert r. induction l as [|x t IH]; intros r; cbn [after_last]; [discriminate|].
  destruct (after_last f t) as [r'|] eqn:E.
  - intros [= <-]. destruct (IH r' eq_refl) as [H1 H2]. cbn [existsb rev].
    rewrite H1, orb_true_r. split; [reflexivity|].
    rewrite before_first_app_hit; [exact H2|now rewrite existsb_rev].
  - destruct (f x) eqn:Ex; [|discriminate]. intros [= <-].
    cbn [existsb rev]. rewrite Ex. split; [reflexivity|].
    apply after_last_none in E. rewrite before_first_app_miss by now rewrite existsb_rev.
    cbn. rewrite Ex. now rewrite app_nil_r.
Qed.

Section CutRoot.
  Context {A : Type}.
  Variable m : A -> bool.

  Lemma cut_root_miss (fd : bool) (a b : list A) :
    existsb m a = false -> cut_root m fd (a ++ b) = a ++ cut_root m (fd || negb (is_nil a)) b.
  Proof.
    revert fd. induction a as [|x r IH]; intros fd H.
    - cbn. now rewrite orb_false_r.
    - cbn in H. apply orb_false_iff in H. destruct H as [H1 H2].
      cbn [app cut_root]. rewrite H1. rewrite (IH true H2). cbn [is_nil negb].
      now rewrite orb_true_r.
  Qed.

  Lemma cut_root_hit (a b : list A) :
    existsb m a = true -> cut_root m true (a ++ b) = before_first m a.
  Proof.
    induction a as [|x r IH]; cbn; [discriminate|]. destruct (m x); cbn; [reflexivity|].
    intros H. now rewrite IH.
  Qed.

  Lemma cut_root_leading (a b : list A) :
    forallb m a = true -> cut_root m false (a ++ b) = a ++ cut_root m false b.
  Proof.
    induction a as [|x r IH]; cbn; [reflexivity|]. intros H. apply andb_true_iff in H.
    destruct H as [H1 H2]. now rewrite H1, IH.
  Qed.
End CutRoot.

(* ================================================================ Prune on one sample, root first *)
Section PruneSample.
  Variable m : frame -> bool.
  Variables Fr Fr' : Z -> list frame.     (* root-first frames of a location before / after *)
  Variables pr pb : Z -> bool.
  Variables clean mixed : Z -> bool.

  Definition loc_ok (id : Z) : Prop :=
    Fr id <> []
    /\ (existsb m (Fr id) = false -> pr id = false /\ pb id = false /\ Fr' id = Fr id)
    /\ (existsb m (Fr id) = true ->
          pb id = true /\ pr id = is_nil (before_first m (Fr id))
          /\ Fr' id = if pr id then Fr id else before_first m (Fr id))
    /\ clean id = negb (existsb m (Fr id))
    /\ (clean id = false -> mixed id = false -> forallb m (Fr id) = true).

  Lemma prune_scan_found (rl : list Z) :
    (forall id, In id rl -> loc_ok id) ->
    flat_map Fr' (prune_scan pr pb true rl) = cut_root m true (flat_map Fr rl).
  Proof.
    induction rl as [|id r IH]; intros H; [reflexivity|].
    destruct (H id (or_introl eq_refl)) as [Hne [Hmiss [Hhit _]]].
    assert (Hr : forall j, In j r -> loc_ok j) by (intros j Hj; apply H; now right).
    cbn [prune_scan flat_map].
    destruct (existsb m (Fr id)) eqn:E.
    - destruct (Hhit eq_refl) as [Hpb [Hpr HF]]. rewrite Hpb. cbn [negb andb].
      rewrite andb_false_r. rewrite (cut_root_hit m _ _ E).
      destruct (pr id) eqn:Epr.
      + cbn. symmetry in Hpr. destruct (before_first m (Fr id)); [reflexivity|discriminate].
      + cbn [flat_map]. now rewrite app_nil_r.
    - destruct (Hmiss eq_refl) as [Hpr [Hpb HF]]. rewrite Hpr, Hpb. cbn [negb andb flat_map].
      rewrite HF, (IH Hr). rewrite (cut_root_miss m true _ _ E). reflexivity.
  Qed.

  Lemma prune_scan_notfound (rl : list Z) :
    (forall id, In id rl -> loc_ok id) ->
    f14_scan clean mixed rl = false ->
    flat_map Fr' (prune_scan pr pb false rl) = cut_root m false (flat_map Fr rl).
  Proof.
    induction rl as [|id r IH]; intros H Hcls; [reflexivity|].
    destruct (H id (or_introl eq_refl)) as [Hne [Hmiss [Hhit [Hclean Hall]]]].
    assert (Hr : forall j, In j r -> loc_ok j) by (intros j Hj; apply H; now right).
    cbn [prune_scan flat_map f14_scan] in *.
    destruct (existsb m (Fr id)) eqn:E.
    - cbn in Hclean. rewrite Hclean in Hcls.
      destruct (mixed id) eqn:Emx; [discriminate|].
      pose proof (Hall Hclean eq_refl) as Hfa.
      destruct (Hhit eq_refl) as [Hpb [Hpr HF]]. rewrite Hpb. cbn [negb andb].
      rewrite andb_false_r. cbn [flat_map].
      assert (Hbf : before_first m (Fr id) = []).
      { destruct (Fr id) as [|f t]; [reflexivity|]. cbn in Hfa. apply andb_true_iff in Hfa.
        destruct Hfa as [Hf _]. cbn. now rewrite Hf. }
      rewrite Hbf in Hpr. cbn in Hpr. rewrite Hpr in HF. rewrite HF.
      rewrite (cut_root_leading m _ _ Hfa). f_equal. exact (IH Hr Hcls).
    - destruct (Hmiss eq_refl) as [Hpr [Hpb HF]]. rewrite Hpr, Hpb. cbn [negb andb flat_map].
      rewrite HF, (prune_scan_found r Hr). rewrite (cut_root_miss m false _ _ E).
      destruct (Fr id); [congruence|reflexivity].
  Qed.
End PruneSample.

(* ================================================================ Prune on a profile *)
Section PruneProfile.
  Variable M : string -> string -> bool.
  Variable p : profile.
  Variable drop : string.
  Variable keep : option string.
  Hypothesis Hwf : wf_profile p = true.

  Let m := frame_dropped M p drop keep.
  Let g := fun l => fst (fst (prune_loc M p drop keep l)).

  Lemma pg_id l : l_id (g l) = l_id l.
  Proof. unfold g, prune_loc. destruct (after_last _ _) as [[|? ?]|]; reflexivity. Qed.

  Lemma frame_dropped_mk (l : location) (ln : line) : m (mk_frame l ln) = prune_line M p drop keep ln.
  Proof.
    unfold m, frame_dropped, frame_fn, prune_line, mk_frame. cbn.
    destruct (find_function p (ln_fn ln)) as [f|]; [|reflexivity].
    destruct (String.eqb (f_name f) ""); reflexivity.
  Qed.

  Let Fr := fun id => rev (loc_frames_of p id).
  Let Fr' := fun id => match find_location p id with Some l => rev (loc_frames (g l)) | None => [] end.
  Let pb := id_flag (fun l => snd (fst (prune_loc M p drop keep l))) (p_location p).
  Let pr := id_flag (fun l => snd (prune_loc M p drop keep l)) (p_location p).
  Let clean := fun id => forallb (fun f => negb (m f)) (loc_frames_of p id).
  Let mixed := fun id => existsb (fun f => negb (m f)) (loc_frames_of p id).

  Lemma forallb_negb_existsb {A} (f : A -> bool) (l : list A) :
    forallb (fun x => negb (f x)) l = negb (existsb f l).
  Proof. induction l as [|x r IH]; [reflexivity|]. cbn. rewrite IH. now destruct (f x). Qed.

  Lemma existsb_negb_forallb {A} (f : A -> bool) (l : list A) :
    existsb (fun x => negb (f x)) l = false -> forallb f l = true.
  Proof.
    induction l as [|x r IH]; [reflexivity|]. cbn. intros H. apply orb_false_iff in H.
    destruct H as [H1 H2]. apply negb_false_iff in H1. now rewrite H1, IH.
  Qed.

  Lemma prune_loc_ok (id : Z) (l : location) :
    find_location p id = Some l -> loc_ok m Fr Fr' pr pb clean mixed id.
  Proof.
    intros Hl. unfold loc_ok.
    assert (Hpb : pb id = snd (fst (prune_loc M p drop keep l)))
      by (unfold pb; exact (id_flag_find (fun l => snd (fst (prune_loc M p drop keep l))) _ id l (wf_nodup p Hwf) Hl)).
    assert (Hpr : pr id = snd (prune_loc M p drop keep l))
      by (unfold pr; exact (id_flag_find (fun l => snd (prune_loc M p drop keep l)) _ id l (wf_nodup p Hwf) Hl)).
    unfold Fr, Fr', clean, mixed, loc_frames_of. rewrite Hl. rewrite Hpb, Hpr. unfold g.
    split; [|split; [|split; [|split]]].
    - intros H. apply (f_equal (@rev frame)) in H. rewrite rev_involutive in H. cbn in H.
      exact (loc_frames_nonempty l H).
    - (* no match *)
      rewrite existsb_rev. intros E. unfold prune_loc.
      destruct (l_lines l) as [|ln0 lns] eqn:El; [cbn; auto|].
      assert (Hne : l_lines l <> []) by (rewrite El; discriminate).
      rewrite <- El. rewrite (loc_frames_lines l Hne) in E.
      rewrite existsb_map in E.
      rewrite (existsb_ext_in _ (prune_line M p drop keep) _ (fun x _ => frame_dropped_mk l x)) in E.
      apply after_last_none in E. rewrite E. cbn. auto.
    - (* a match *)
      rewrite existsb_rev. intros E. unfold prune_loc.
      destruct (l_lines l) as [|ln0 lns] eqn:El.
      { unfold loc_frames in E. rewrite El in E. cbn in E. unfold m, frame_dropped, frame_fn in E. cbn in E.
        discriminate. }
      assert (Hne : l_lines l <> []) by (rewrite El; discriminate).
      rewrite <- El. rewrite (loc_frames_lines l Hne) in *.
      destruct (after_last (prune_line M p drop keep) (l_lines l)) as [r|] eqn:Eal.
      2:{ apply after_last_none in Eal. rewrite existsb_map in E.
          rewrite (existsb_ext_in _ (prune_line M p drop keep) _ (fun x _ => frame_dropped_mk l x)) in E.
          congruence. }
      destruct (after_last_some _ _ _ Eal) as [_ Hrev].
      assert (Hbf : before_first m (rev (map (mk_frame l) (l_lines l))) = map (mk_frame l) (rev r)).
      { rewrite <- map_rev. rewrite (before_first_map (prune_line M p drop keep) (mk_frame l) m _ (frame_dropped_mk l)).
        now rewrite Hrev. }
      rewrite Hbf.
      destruct r as [|r0 rs].
      + cbn. rewrite (loc_frames_lines l Hne). auto.
      + cbn [fst snd]. split; [reflexivity|]. split.
        * cbn [rev map]. destruct (rev rs); reflexivity.
        * rewrite loc_frames_set_lines by discriminate. now rewrite map_rev.
    - rewrite existsb_rev. apply forallb_negb_existsb.
    - intros _ Hmx. rewrite forallb_rev. now apply existsb_negb_forallb.
  Qed.

  Lemma prune_sample_frames (s : sample) :
    In s (p_sample p) -> in_F14_sample M p drop keep s = false ->
    sample_frames (prune M p drop keep) (set_sample_locs s (rev (prune_scan pr pb false (rev (s_loc s)))))
    = prune_frames m (sample_frames p s).
  Proof.
    intros Hs Hcls.
    assert (Hok : forall id, In id (rev (s_loc s)) -> loc_ok m Fr Fr' pr pb clean mixed id).
    { intros id Hid. apply in_rev in Hid. destruct (wf_present p s id Hwf Hs Hid) as [l Hl].
      exact (prune_loc_ok id l Hl). }
    pose proof (prune_scan_notfound m Fr Fr' pr pb clean mixed (rev (s_loc s)) Hok Hcls) as H.
    unfold sample_frames, prune_frames. cbn [s_loc set_sample_locs].
    unfold prune. fold pb pr. rewrite (frames_of_rewritten p g _ _ pg_id).
    unfold frames_of at 1. fold (loc_frames_of p).
    rewrite flat_map_rev. fold Fr. rewrite <- H.
    rewrite flat_map_rev. apply flat_map_ext_in. intros id _.
    unfold Fr'. destruct (find_location p id); [now rewrite rev_involutive|reflexivity].
  Qed.

  Lemma prune_meets_spec_l :
    in_F14 M p drop keep = false ->
    fsamples (prune M p drop keep) = spec_prune M p drop keep (fsamples p).
  Proof.
    intros Hcls. unfold spec_prune, fsamples. rewrite map_map.
    unfold prune at 2. cbn [p_sample set_samples]. rewrite map_map.
    apply map_ext_in. intros s Hs.
    assert (Hc : in_F14_sample M p drop keep s = false)
      by (unfold in_F14 in Hcls; exact (existsb_false_forall _ _ Hcls s Hs)).
    pose proof (prune_sample_frames s Hs Hc) as H.
    unfold fsample_of, on_frames. cbn [fs_val fs_label fs_numlabel fs_numunit fs_frames].
    fold m. rewrite <- H. reflexivity.
  Qed.
End PruneProfile.

(* ================================================================ frame condition (no class hypothesis) *)
Definition payload (s : sample) := (s_val s, s_label s, s_numlabel s, s_numunit s).

Lemma prune_payload M p drop keep :
  map payload (p_sample (prune M p drop keep)) = map payload (p_sample p).
Proof. unfold prune. cbn [p_sample set_samples]. rewrite map_map. apply map_ext. reflexivity. Qed.

Lemma prune_from_payload M p re :
  map payload (p_sample (prune_from M p re)) = map payload (p_sample p).
Proof.
  unfold prune_from. cbn [p_sample set_samples]. rewrite map_map. apply map_ext. intros s.
  destruct (from_first _ (s_loc s)); reflexivity.
Qed.

Lemma prune_scan_keeps_root pr pb id r :
  exists fd, prune_scan pr pb false (id :: r) = id :: prune_scan pr pb fd r.
Proof.
  cbn [prune_scan]. destruct (negb (pr id) && negb (pb id)); [now exists true|].
  cbn [negb]. now exists false.
Qed.

Lemma flat_map_in_nonempty {A B} (F : A -> list B) (l : list A) (x : A) :
  In x l -> F x <> [] -> flat_map F l <> [].
Proof.
  induction l as [|y r IH]; intros Hin Hne; [destruct Hin|]. cbn.
  destruct Hin as [->|Hin].
  - destruct (F x); [congruence|discriminate].
  - intros H. apply app_eq_nil in H. destruct H as [_ H]. exact (IH Hin Hne H).
Qed.

Lemma prune_never_empties M p drop keep (s : sample) :
  wf_profile p = true -> In s (p_sample p) -> s_loc s <> [] ->
  sample_frames (prune M p drop keep)
    (set_sample_locs s (rev (prune_scan (id_flag (fun l => snd (prune_loc M p drop keep l)) (p_location p))
                                        (id_flag (fun l => snd (fst (prune_loc M p drop keep l))) (p_location p))
                                        false (rev (s_loc s))))) <> [].
Proof.
  intros Hwf Hs Hne. unfold sample_frames. cbn [s_loc set_sample_locs]. unfold prune.
  rewrite (frames_of_rewritten p (fun l => fst (fst (prune_loc M p drop keep l))) _ _ (pg_id M p drop keep)).
  destruct (rev (s_loc s)) as [|id r] eqn:E.
  { apply (f_equal (@rev Z)) in E. rewrite rev_involutive in E. cbn in E. congruence. }
  destruct (prune_scan_keeps_root
              (id_flag (fun l => snd (prune_loc M p drop keep l)) (p_location p))
              (id_flag (fun l => snd (fst (prune_loc M p drop keep l))) (p_location p)) id r) as [fd Hfd].
  rewrite Hfd. assert (Hid : In id (s_loc s)) by (apply in_rev; rewrite E; now left).
  destruct (wf_present p s id Hwf Hs Hid) as [l Hl].
  apply (flat_map_in_nonempty _ _ id).
  - apply in_rev. rewrite rev_involutive. now left.
  - rewrite Hl. apply loc_frames_nonempty.
Qed.

Lemma prune_from_never_empties M p re (s : sample) :
  wf_profile p = true -> In s (p_sample p) -> s_loc s <> [] ->
  sample_frames (prune_from M p re)
    (match from_first (id_flag (fun l => is_some (prune_from_loc M p re l)) (p_location p)) (s_loc s) with
     | Some locs => set_sample_locs s locs | None => s end) <> [].
Proof.
  intros Hwf Hs Hne.
  set (flag := id_flag (fun l => is_some (prune_from_loc M p re l)) (p_location p)).
  assert (Hsub : forall x, from_first flag (s_loc s) = Some x -> x <> [] /\ forall id, In id x -> In id (s_loc s)).
  { generalize (s_loc s). intros l. induction l as [|y r IH]; intros x; cbn; [discriminate|].
    destruct (flag y).
    - intros [= <-]. split; [discriminate|auto].
    - intros H. destruct (IH x H) as [H1 H2]. split; [exact H1|]. intros id Hid. right. now apply H2. }
  assert (Hgen : forall locs, locs <> [] -> (forall id, In id locs -> In id (s_loc s)) ->
             frames_of (prune_from M p re) locs <> []).
  { intros locs Hl Hin. unfold prune_from.
    rewrite (frames_of_rewritten p _ _ _ (g_id M p re)).
    destruct locs as [|id r]; [congruence|].
    destruct (wf_present p s id Hwf Hs (Hin id (or_introl eq_refl))) as [l Hl'].
    apply (flat_map_in_nonempty _ _ id); [now left|]. rewrite Hl'. apply loc_frames_nonempty. }
  unfold sample_frames. destruct (from_first flag (s_loc s)) as [x|] eqn:E.
  - destruct (Hsub x eq_refl) as [H1 H2]. cbn [s_loc set_sample_locs]. now apply Hgen.
  - apply Hgen; auto.
Qed.

(* RemoveUninteresting *)
Lemma remove_uninteresting_identity M V p :
  p_dropframes p = ""%string -> remove_uninteresting M V p = Some p.
Proof. intros H. unfold remove_uninteresting. now rewrite H. Qed.

Definition ru_keep (p : profile) : option string :=
  if String.eqb (p_keepframes p) "" then None else Some (anchor (p_keepframes p)).

Lemma remove_uninteresting_cases M V p :
  remove_uninteresting M V p = Some p
  \/ remove_uninteresting M V p = None
  \/ remove_uninteresting M V p = Some (prune M p (anchor (p_dropframes p)) (ru_keep p)).
Proof.
  unfold remove_uninteresting, ru_keep.
  destruct (String.eqb (p_dropframes p) ""); [now left|].
  destruct (V (anchor (p_dropframes p))); cbn [negb]; [|now (right; left)].
  destruct (String.eqb (p_keepframes p) ""); [now (right; right)|].
  destruct (V (anchor (p_keepframes p))); cbn [negb]; [now (right; right)|now (right; left)].
Qed.

Lemma remove_uninteresting_prunes M V p :
  p_dropframes p <> ""%string ->
  V (anchor (p_dropframes p)) = true ->
  (p_keepframes p = ""%string \/ V (anchor (p_keepframes p)) = true) ->
  remove_uninteresting M V p = Some (prune M p (anchor (p_dropframes p)) (ru_keep p)).
Proof.
  intros Hd Hv Hk. unfold remove_uninteresting, ru_keep.
  destruct (String.eqb_spec (p_dropframes p) ""); [congruence|].
  rewrite Hv. cbn [negb].
  destruct (String.eqb_spec (p_keepframes p) ""); [reflexivity|].
  destruct Hk as [Hk|Hk]; [congruence|]. now rewrite Hk.
Qed.

(* simplifyFunc only ever cuts: the result is a prefix of the name without its leading dot *)
Lemma simp_scan_prefix (s : string) (k : nat) : has_prefix (simp_scan s k) s = true.
Proof.
  revert k. induction s as [|a r IH]; intros k; [reflexivity|].
  cbn [simp_scan]. destruct k as [|k].
  - destruct (has_prefix "(anonymous namespace)" (String a r)).
    { cbn [has_prefix]. now rewrite Ascii.eqb_refl, IH. }
    destruct (has_prefix "operator()" (String a r)).
    { cbn [has_prefix]. now rewrite Ascii.eqb_refl, IH. }
    destruct (Ascii.eqb a "("); [reflexivity|].
    cbn [has_prefix]. now rewrite Ascii.eqb_refl, IH.
  - cbn [has_prefix]. now rewrite Ascii.eqb_refl, IH.
Qed.

Lemma simplify_func_prefix (f : string) : has_prefix (simplify_func f) (trim_prefix "." f) = true.
Proof. apply simp_scan_prefix. Qed.

(* ================================================================ cut_root is the relational drop rule *)
Section CutRootRule.
  Context {A : Type}.
  Variable m : A -> bool.

  Definition cutpt (found : bool) (fs : list A) (k : nat) : Prop :=
    (exists f, nth_error fs k = Some f /\ m f = true) /\
    (found = true \/ exists j g, (j < k)%nat /\ nth_error fs j = Some g /\ m g = false).

  Lemma cutpt_false_is_cut_point fs k : cutpt false fs k <-> cut_point m fs k.
  Proof.
    unfold cutpt, cut_point. split; intros [H1 H2]; (split; [exact H1|]).
    - destruct H2 as [H2|H2]; [discriminate|exact H2].
    - now right.
  Qed.

  Lemma cut_root_rule_gen (fs : list A) (found : bool) :
    (exists k, cutpt found fs k /\ (forall j, (j < k)%nat -> ~ cutpt found fs j) /\ cut_root m found fs = firstn k fs)
    \/ ((forall k, ~ cutpt found fs k) /\ cut_root m found fs = fs).
  Proof.
    revert found. induction fs as [|f r IH]; intros found.
    - right. split; [|reflexivity]. intros k [[x [H _]] _]. destruct k; discriminate.
    - cbn [cut_root]. destruct (m f) eqn:Ef.
      + destruct found.
        * left. exists 0%nat. split; [|split; [intros j Hj; lia|reflexivity]].
          split; [exists f; now split|now left].
        * assert (Hshift : forall k, cutpt false (f :: r) (S k) <-> cutpt false r k).
          { intros k. unfold cutpt. cbn [nth_error]. split; intros [H1 H2]; (split; [exact H1|]); right.
            - destruct H2 as [H2|[j [g [Hj [Hn Hg]]]]]; [discriminate|].
              destruct j as [|j]; [cbn in Hn; injection Hn as <-; congruence|].
              exists j, g. cbn in Hn. repeat split; [lia|exact Hn|exact Hg].
            - destruct H2 as [H2|[j [g [Hj [Hn Hg]]]]]; [discriminate|].
              exists (S j), g. repeat split; [lia|exact Hn|exact Hg]. }
          assert (H0 : ~ cutpt false (f :: r) 0).
          { intros [_ [H|[j [g [Hj _]]]]]; [discriminate|lia]. }
          destruct (IH false) as [[k [Hk [Hmin Hres]]]|[Hno Hres]].
          -- left. exists (S k). split; [now apply Hshift|]. split.
             ++ intros j Hj. destruct j as [|j]; [exact H0|]. rewrite Hshift. apply Hmin. lia.
             ++ cbn [firstn]. now rewrite Hres.
          -- right. split; [|now rewrite Hres]. intros k. destruct k as [|k]; [exact H0|].
             rewrite Hshift. apply Hno.
      + assert (Hshift : forall k, cutpt found (f :: r) (S k) <-> cutpt true r k).
        { intros k. unfold cutpt. cbn [nth_error]. split; intros [H1 _]; (split; [exact H1|]).
          - now left.
          - right. exists 0%nat, f. repeat split; [lia|exact Ef]. }
        assert (H0 : ~ cutpt found (f :: r) 0).
        { intros [[x [Hx Hm]] _]. cbn in Hx. injection Hx as <-. congruence. }
        destruct (IH true) as [[k [Hk [Hmin Hres]]]|[Hno Hres]].
        * left. exists (S k). split; [now apply Hshift|]. split.
          -- intros j Hj. destruct j as [|j]; [exact H0|]. rewrite Hshift. apply Hmin. lia.
          -- cbn [firstn]. now rewrite Hres.
        * right. split; [|now rewrite Hres]. intros k. destruct k as [|k]; [exact H0|].
          rewrite Hshift. apply Hno.
  Qed.

  Lemma cut_root_drop_rule (fs : list A) : drop_rule m fs (cut_root m false fs).
  Proof.
    unfold drop_rule. destruct (cut_root_rule_gen fs false) as [[k [Hk [Hmin Hres]]]|[Hno Hres]].
    - left. exists k. split; [now apply cutpt_false_is_cut_point|]. split; [|exact Hres].
      intros j Hj Hc. apply (Hmin j Hj). now apply cutpt_false_is_cut_point.
    - right. split; [|exact Hres]. intros k Hc. apply (Hno k). now apply cutpt_false_is_cut_point.
  Qed.
End CutRootRule.

(* ================================================================ histories: operations compose *)
Section Ext.
  Context {A : Type}.
  Variables m m' : A -> bool.
  Hypothesis Hm : forall x, m x = m' x.

  Lemma cut_root_ext (fd : bool) (fs : list A) : cut_root m fd fs = cut_root m' fd fs.
  Proof.
    revert fd. induction fs as [|f r IH]; intros fd; [reflexivity|].
    cbn. rewrite Hm. destruct (m' f); [destruct fd|]; now rewrite ?IH.
  Qed.

  Lemma prune_frames_ext (fs : list A) : prune_frames m fs = prune_frames m' fs.
  Proof. unfold prune_frames. now rewrite cut_root_ext. Qed.

  Lemma drop_to_first_ext (fs : list A) : drop_to_first m fs = drop_to_first m' fs.
  Proof. induction fs as [|f r IH]; [reflexivity|]. cbn. rewrite Hm, IH. reflexivity. Qed.

  Lemma prune_from_frames_ext (fs : list A) : prune_from_frames m fs = prune_from_frames m' fs.
  Proof.
    unfold prune_from_frames. rewrite drop_to_first_ext.
    now rewrite (existsb_ext_in m m' fs (fun x _ => Hm x)).
  Qed.
End Ext.

(* what the operations never touch *)
Definition same_header (q p : profile) : Prop :=
  p_function q = p_function p /\ p_dropframes q = p_dropframes p /\ p_keepframes q = p_keepframes p.

Lemma same_header_refl p : same_header p p.
Proof. repeat split. Qed.

Lemma same_header_trans a b c : same_header a b -> same_header b c -> same_header a c.
Proof. intros [H1 [H2 H3]] [H4 [H5 H6]]. repeat split; congruence. Qed.

Section HistoryProofs.
  Variable M : string -> string -> bool.
  Variable V : string -> bool.

  Lemma frame_fn_header q p fr : p_function q = p_function p -> frame_fn q fr = frame_fn p fr.
  Proof. intros H. unfold frame_fn, find_function. now rewrite H. Qed.

  Lemma spec_prune_header q p d k ss :
    p_function q = p_function p -> spec_prune M q d k ss = spec_prune M p d k ss.
  Proof.
    intros H. unfold spec_prune. apply map_ext. intros s. unfold on_frames. f_equal.
    apply prune_frames_ext. intros fr. unfold frame_dropped. now rewrite (frame_fn_header q p fr H).
  Qed.

  Lemma spec_prune_from_header q p re ss :
    p_function q = p_function p -> spec_prune_from M q re ss = spec_prune_from M p re ss.
  Proof.
    intros H. unfold spec_prune_from. apply map_ext. intros s. unfold on_frames. f_equal.
    apply prune_from_frames_ext. intros fr. unfold frame_from. now rewrite (frame_fn_header q p fr H).
  Qed.

  Lemma removeun_active_header q p : same_header q p -> removeun_active V q = removeun_active V p.
  Proof. intros [_ [H2 H3]]. unfold removeun_active. now rewrite H2, H3. Qed.

  Lemma run_step_removeun p :
    run_step M V p SRemoveUn = match removeun_active V p with Some (d, k) => prune M p d k | None => p end.
  Proof.
    unfold run_step, remove_uninteresting, removeun_active.
    destruct (String.eqb (p_dropframes p) ""); [reflexivity|].
    destruct (V (anchor (p_dropframes p))); cbn [negb]; [|reflexivity].
    destruct (String.eqb (p_keepframes p) ""); [reflexivity|].
    destruct (V (anchor (p_keepframes p))); reflexivity.
  Qed.

  Lemma prune_header p d k : same_header (prune M p d k) p.
  Proof. repeat split. Qed.
  Lemma prune_from_header p re : same_header (prune_from M p re) p.
  Proof. repeat split. Qed.

  Lemma run_step_header p st : same_header (run_step M V p st) p.
  Proof.
    destruct st; [apply prune_header|apply prune_from_header|].
    rewrite run_step_removeun. destruct (removeun_active V p) as [[d k]|];
      [apply prune_header|apply same_header_refl].
  Qed.

  (* ---- validity is preserved by in-place surgery that only removes lines and sample locations *)
  Lemma wf_rewritten (p : profile) (g : location -> location) (h : sample -> sample) :
    (forall l, l_id (g l) = l_id l) ->
    (forall l ln, In ln (l_lines (g l)) -> In ln (l_lines l)) ->
    (forall s id, In id (s_loc (h s)) -> In id (s_loc s)) ->
    wf_profile p = true ->
    wf_profile (set_samples (set_locations p (map g (p_location p))) (map h (p_sample p))) = true.
  Proof.
    intros Hg Hlines Hlocs Hwf.
    pose proof (wf_nodup p Hwf) as Hnd.
    unfold wf_profile. cbn [p_location p_sample set_samples set_locations].
    apply andb_true_iff. split; [apply andb_true_iff; split|].
    - rewrite map_map. erewrite map_ext; [exact Hnd|]. intros l. apply Hg.
    - apply forallb_forall. intros s' Hs'. apply in_map_iff in Hs'. destruct Hs' as [s [<- Hs]].
      unfold locs_present. apply forallb_forall. intros id Hid.
      destruct (wf_present p s id Hwf Hs (Hlocs s id Hid)) as [l Hl].
      unfold find_location. cbn [p_location set_samples set_locations].
      rewrite (find_map_id g _ id Hg). unfold find_location in Hl. now rewrite Hl.
    - apply forallb_forall. intros l' Hl'. apply in_map_iff in Hl'. destruct Hl' as [l [<- Hl]].
      apply forallb_forall. intros ln Hln.
      unfold wf_profile in Hwf. apply andb_true_iff in Hwf. destruct Hwf as [_ Hwf].
      rewrite forallb_forall in Hwf. specialize (Hwf l Hl). rewrite forallb_forall in Hwf.
      exact (Hwf ln (Hlines l ln Hln)).
  Qed.

  Lemma after_last_incl {A} (f : A -> bool) (l r : list A) :
    after_last f l = Some r -> forall x, In x r -> In x l.
  Proof.
    revert r. induction l as [|y t IH]; intros r; cbn; [discriminate|].
    destruct (after_last f t) as [r'|].
    - intros [= <-] x Hx. right. now apply (IH r').
    - destruct (f y); [|discriminate]. intros [= <-] x Hx. now right.
  Qed.

  Lemma from_first_incl {A} (f : A -> bool) (l r : list A) :
    from_first f l = Some r -> forall x, In x r -> In x l.
  Proof.
    revert r. induction l as [|y t IH]; intros r; cbn; [discriminate|].
    destruct (f y).
    - intros [= <-] x Hx. exact Hx.
    - intros H x Hx. right. now apply (IH r).
  Qed.

  Lemma prune_scan_incl pr pb fd rl : forall x, In x (prune_scan pr pb fd rl) -> In x rl.
  Proof.
    revert fd. induction rl as [|id r IH]; intros fd x; cbn; [tauto|].
    destruct (negb (pr id) && negb (pb id)).
    - intros [->|H]; [now left|right; now apply (IH true)].
    - destruct (negb fd).
      + intros [->|H]; [now left|right; now apply (IH fd)].
      + destruct (pr id); [intros []|intros [->|[]]; now left].
  Qed.

  Lemma prune_wf p d k : wf_profile p = true -> wf_profile (prune M p d k) = true.
  Proof.
    intros Hwf. unfold prune. apply wf_rewritten; [apply pg_id| | |exact Hwf].
    - intros l ln. unfold prune_loc.
      destruct (after_last (prune_line M p d k) (l_lines l)) as [[|r0 rs]|] eqn:E; cbn; try tauto.
      intros H. exact (after_last_incl _ _ _ E ln H).
    - intros s id. cbn [s_loc set_sample_locs]. intros H. apply in_rev in H.
      apply prune_scan_incl in H. now apply in_rev.
  Qed.

  Lemma prune_from_wf p re : wf_profile p = true -> wf_profile (prune_from M p re) = true.
  Proof.
    intros Hwf. unfold prune_from. apply wf_rewritten; [apply g_id| | |exact Hwf].
    - intros l ln. unfold prune_from_loc.
      destruct (from_first (pf_line M p re) (l_lines l)) as [r|] eqn:E; cbn; [|tauto].
      intros H. exact (from_first_incl _ _ _ E ln H).
    - intros s id.
      destruct (from_first _ (s_loc s)) as [r|] eqn:E; cbn [s_loc set_sample_locs]; [|tauto].
      intros H. exact (from_first_incl _ _ _ E id H).
  Qed.

  Lemma run_step_wf p st : wf_profile p = true -> wf_profile (run_step M V p st) = true.
  Proof.
    intros Hwf. destruct st; [now apply prune_wf|now apply prune_from_wf|].
    rewrite run_step_removeun. destruct (removeun_active V p) as [[d k]|]; [now apply prune_wf|exact Hwf].
  Qed.

  (* one step of a history: the rule, read with the ORIGINAL profile's functions *)
  Lemma run_step_meets_spec p q st :
    wf_profile q = true -> same_header q p -> step_classes M V q st = [] ->
    fsamples (run_step M V q st) = spec_step M V p (fsamples q) st.
  Proof.
    intros Hwf Hh Hc. pose proof Hh as [Hf _]. destruct st as [d k|re|]; cbn [step_classes spec_step] in *.
    - destruct (in_F14 M q d k) eqn:E; [discriminate|]. cbn [run_step].
      rewrite (prune_meets_spec_l M q d k Hwf E). now apply spec_prune_header.
    - destruct (in_F15 M q re) eqn:E; [discriminate|]. cbn [run_step].
      rewrite (prune_from_meets_spec_l M q re Hwf E). now apply spec_prune_from_header.
    - rewrite run_step_removeun. rewrite <- (removeun_active_header q p Hh).
      destruct (removeun_active V q) as [[d k]|]; [|reflexivity].
      destruct (in_F14 M q d k) eqn:E; [discriminate|].
      rewrite (prune_meets_spec_l M q d k Hwf E). now apply spec_prune_header.
  Qed.

  Lemma history_meets_spec_gen p sts : forall q,
    wf_profile q = true -> same_header q p -> steps_classes M V q sts = [] ->
    fsamples (run_steps M V q sts) = spec_steps M V p sts (fsamples q).
  Proof.
    induction sts as [|st r IH]; intros q Hwf Hh Hc; [reflexivity|].
    cbn [steps_classes] in Hc. apply app_eq_nil in Hc. destruct Hc as [Hc1 Hc2].
    unfold run_steps, spec_steps. cbn [fold_left].
    rewrite <- (run_step_meets_spec p q st Hwf Hh Hc1).
    apply IH; [now apply run_step_wf| |exact Hc2].
    exact (same_header_trans _ _ _ (run_step_header q st) Hh).
  Qed.

  Lemma history_meets_spec_l p sts :
    wf_profile p = true -> steps_classes M V p sts = [] ->
    fsamples (run_steps M V p sts) = spec_steps M V p sts (fsamples p).
  Proof. intros Hwf Hc. exact (history_meets_spec_gen p sts p Hwf (same_header_refl p) Hc). Qed.
End HistoryProofs.
