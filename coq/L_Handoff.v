(* Proofs about the JSON hand-off: HTML-escaped JSON strings contain no "<", and a text without "<"
   followed by the end tag is delimited by the tokenizer exactly where the server ended it. *)
From Coq Require Import Lia Arith.
From PV Require Import M_Handoff S_Handoff.
Open Scope string_scope.
Open Scope Z_scope.

Lemma no_lt_app : forall a b, no_lt (a ++ b) = no_lt a && no_lt b.
Proof.
  induction a as [|c a IH]; intros b; simpl; [reflexivity|]. rewrite IH. now rewrite andb_assoc.
Qed.

Lemma json_esc_char_no_lt : forall a, no_lt (json_esc_char true a) = true.
Proof. intros [[] [] [] [] [] [] [] []]; vm_compute; reflexivity. Qed.

Lemma json_esc_no_lt : forall s, no_lt (json_esc true s) = true.
Proof.
  induction s as [|a r IH]; simpl; [reflexivity|]. now rewrite no_lt_app, json_esc_char_no_lt, IH.
Qed.

Lemma json_string_html_no_lt_lemma : forall s, no_lt (json_string_html s) = true.
Proof.
  intros s. unfold json_string_html, json_string. rewrite !no_lt_app, json_esc_no_lt. reflexivity.
Qed.

Fixpoint concat_str (l : list string) : string :=
  match l with [] => "" | x :: r => x ++ concat_str r end.

Lemma no_lt_concat : forall l, Forall (fun x => no_lt x = true) l -> no_lt (concat_str l) = true.
Proof.
  induction 1 as [|x l Hx _ IH]; simpl; [reflexivity|]. now rewrite no_lt_app, Hx, IH.
Qed.

Lemma length_append : forall a b, String.length (a ++ b) = (String.length a + String.length b)%nat.
Proof. induction a as [|c a IH]; intros b; simpl; [reflexivity|]. now rewrite IH. Qed.

(* a text without "<" never leaves state 0 and never ends the element ... *)
Lemma sd_scan_no_lt : forall t rest off, no_lt t = true ->
  sd_scan 0 (t ++ rest) off = sd_scan 0 rest (off + String.length t).
Proof.
  induction t as [|c t IH]; intros rest off H; simpl.
  - f_equal. lia.
  - simpl in H. apply andb_true_iff in H. destruct H as [Hc Ht].
    apply negb_true_iff in Hc. rewrite Hc. simpl. rewrite IH by exact Ht. f_equal. lia.
Qed.

Lemma script_end_skip_lemma : forall t rest, no_lt t = true ->
  script_data_end (t ++ rest) = script_data_end_from (String.length t) rest.
Proof. intros t rest H. unfold script_data_end, script_data_end_from. now rewrite sd_scan_no_lt. Qed.

(* ... so the element is delimited exactly at the end tag the server wrote after it *)
Lemma script_intact_lemma : forall t after, no_lt t = true ->
  script_data_end (t ++ "</script>" ++ after) = Some (String.length t).
Proof.
  intros t after H. unfold script_data_end. rewrite sd_scan_no_lt by exact H. reflexivity.
Qed.

Lemma script_delivers_lemma : forall pieces after,
  Forall (fun x => no_lt x = true) pieces ->
  script_delivers (concat_str pieces ++ "</script>" ++ after) (String.length (concat_str pieces)) = true.
Proof.
  intros pieces after H. unfold script_delivers. rewrite script_intact_lemma by (now apply no_lt_concat).
  apply Nat.leb_refl.
Qed.
