(* Specification of C14, written from the property text against the OBSERVABLE profile: the view
   "per sample: stack addresses, values, block-size label" (ids resolved through the location
   table), the sample/period types, and the mapping of every location.  It does not use the
   interning, id hand-out or parser control flow of M_Legacy.  [legacy_spec] is the decidable
   checker evaluated on the implementation's output. *)
From PV Require Import M_LegacyDoc.
Open Scope Z_scope.

Record sview := { sv_addrs : list Z; sv_vals : list Z; sv_bytes : option Z }.

(* ---- what the document prescribes ---- *)
Definition prev_addr (a : Z) : Z := (a - 1) mod two64.            (* a call site: one back *)
Definition all_prev (hs : list string) : list Z := map (fun h => prev_addr (hex_val h)) hs.
Definition leaf_kept (addrs : list Z) : list Z :=                 (* the leaf is left alone *)
  match addrs with [] => [] | a :: r => a :: map prev_addr r end.
(* a leaf given twice (once from the signal context, once unwound and moved back by one) *)
Definition dedup_leaf (addrs : list Z) : list Z :=
  match addrs with a0 :: a1 :: r => if a0 =? (a1 + 1) mod two64 then a0 :: r else addrs | _ => addrs end.

Definition count_view (d : cdoc) : list sview :=
  flat_map (fun i => match i with
                     | CRec c a => [{| sv_addrs := all_prev a; sv_vals := [dec_val c]; sv_bytes := None |}]
                     | CSkip _ => [] end) (cd_items d).

Section SpecExp.
  Variable unsample : Z -> Z -> Z -> Z * Z.

  Definition unsampled (d : hdoc) (c s : Z) : list Z :=
    if hd_v2 d && negb (c =? 0) && negb (s =? 0) && (1 <? hd_period d)
    then let '(c', s') := unsample c s (hd_period d) in [c'; s']
    else if hd_v2 d && negb (c =? 0) && (s =? 0) then [0; 0]   (* scaleHeapSample: size 0 gives 0, 0 *)
    else [c; s].
  Definition heap_view (d : hdoc) : list sview :=
    flat_map (fun i => match i with
                       | HRec c s ac asz a =>
                           let c := sdec_val c in let s := sdec_val s in let ac := dec_val ac in let asz := dec_val asz in
                           [{| sv_addrs := all_prev a;
                               sv_vals := ((if hd_has_alloc d then unsampled d ac asz else []) ++ unsampled d c s)%list;
                               sv_bytes := Some (if negb (c =? 0) then Z.quot s c
                                                 else if hd_has_alloc d && negb (ac =? 0) then Z.quot asz ac else 0) |}]
                       | HSkip _ => [] end) (hd_items d).
End SpecExp.

Definition contention_view (d : kdoc) : list sview :=
  let period := kd_period d in let hz := kd_hz d in
  flat_map (fun i => match i with
                     | KRec dl c a =>
                         let dl := dec_val dl in let c := dec_val c in
                         [{| sv_addrs := all_prev a;
                             sv_vals := if 0 <? period
                                        then [wrap_i64 (c * period); if 0 <? hz then Z.quot (dl * period * 1000000000) hz else dl]
                                        else [c; dl];
                             sv_bytes := None |}]
                     | KSkip _ => [] end) (kd_items d).

(* threads: a block with a stack is a sample of value 1; a same-as-previous block adds one to the
   sample before it (and is dropped when there is none) *)
Fixpoint thread_view_acc (bs : list tblock) (acc : list sview) : list sview :=   (* acc reversed *)
  match bs with
  | [] => rev acc
  | b :: r =>
      let addrs := map hex_val (List.concat (tb_lines b)) in
      if tb_same b || match addrs with [] => true | _ => false end then
        thread_view_acc r (match acc with
                           | s :: ar => {| sv_addrs := sv_addrs s; sv_bytes := sv_bytes s;
                                           sv_vals := match sv_vals s with v :: vr => wrap_i64 (v + 1) :: vr | [] => [] end |} :: ar
                           | [] => [] end)
      else thread_view_acc r ({| sv_addrs := leaf_kept addrs; sv_vals := [1]; sv_bytes := None |} :: acc)
  end.
Definition thread_view (d : tdoc) : list sview :=
  map (fun s => {| sv_addrs := dedup_leaf (sv_addrs s); sv_vals := sv_vals s; sv_bytes := sv_bytes s |})
      (thread_view_acc (td_blocks d) []).

(* binary CPU: count and count x period(ns); the signal-handler frame (same second address in all
   but 1/32 of the samples) is removed, at most twice; a duplicated leaf is removed *)
Definition cpu_view (d : pdoc) : list sview :=
  let period := wrap_i64 (wrap_i64 (pd_period d) * 1000) in
  let raw := map (fun s => {| rs_addrs := leaf_kept (snd s);
                              rs_vals := [wrap_i64 (fst s); wrap_i64 (wrap_i64 (fst s) * period)]; rs_bytes := None |})
                 (pd_samples d) in
  map (fun s => {| sv_addrs := dedup_leaf (rs_addrs s); sv_vals := rs_vals s; sv_bytes := rs_bytes s |})
      (strip_frame (strip_frame raw)).

(* ---- the observable profile's view ---- *)
Definition loc_addr (p : profile) (id : Z) : Z :=
  match find_location p id with Some l => l_addr l | None => -1 end.
Definition bytes_label (s : sample) : option (option Z) :=   (* None = some other label set *)
  match s_numlabel s, s_label s with
  | [], [] => Some None
  | [(k, [b])], [] => if String.eqb k "bytes" then Some (Some b) else None
  | _, _ => None
  end.

Definition close (tol : bool) (a b : Z) : bool :=
  if tol then Z.abs (a - b) <=? 1 + Z.abs a / 1099511627776 else a =? b.
Fixpoint zs_close (tol : bool) (a b : list Z) : bool :=
  match a, b with [], [] => true | x :: a', y :: b' => close tol x y && zs_close tol a' b' | _, _ => false end.
Fixpoint zs_eqb (a b : list Z) : bool :=
  match a, b with [], [] => true | x :: a', y :: b' => (x =? y) && zs_eqb a' b' | _, _ => false end.

Definition sample_meets (tol : bool) (p : profile) (v : sview) (s : sample) : bool :=
  zs_eqb (map (loc_addr p) (s_loc s)) (sv_addrs v) && zs_close tol (sv_vals v) (s_val s)
  && match bytes_label s, sv_bytes v with
     | Some None, None => true
     | Some (Some b), Some b' => b =? b'
     | _, _ => false
     end.
Fixpoint samples_meet (tol : bool) (p : profile) (vs : list sview) (ss : list sample) : bool :=
  match vs, ss with
  | [], [] => true
  | v :: vr, s :: sr => sample_meets tol p v s && samples_meet tol p vr sr
  | _, _ => false
  end.

(* every location with a non-zero address lies inside the mapping it is given; mappings other than
   the catch-all one come from the document's memory map (by file name) *)
Definition is_catch_all (m : mapping) : bool :=
  (m_start m =? 0) && (m_limit m =? two64 - 1) && String.eqb (m_file m) "".
Definition locations_mapped (p : profile) (files : list string) : bool :=
  forallb (fun l => if l_addr l =? 0 then l_mapping l =? 0
                    else match find_mapping p (l_mapping l) with
                         | Some m => (m_start m <=? l_addr l) && ((l_addr l <? m_limit m) || is_catch_all m)
                         | None => false
                         end) (p_location p)
  && forallb (fun m => is_catch_all m || existsb (String.eqb (m_file m)) files) (p_mapping p).

Definition vt_eqb (a b : valuetype) : bool := String.eqb (vt_type a) (vt_type b) && String.eqb (vt_unit a) (vt_unit b).
Fixpoint vts_eqb (a b : list valuetype) : bool :=
  match a, b with [], [] => true | x :: a', y :: b' => vt_eqb x y && vts_eqb a' b' | _, _ => false end.

Definition header_meets (p : profile) (st : list valuetype) (pt : valuetype) (period : Z) : bool :=
  vts_eqb (p_sampletype p) st && match p_periodtype p with Some t => vt_eqb t pt | None => false end
  && (p_period p =? period).

Definition legacy_spec (tol : bool) (view : list sview) (st : list valuetype) (pt : valuetype) (period : Z)
           (files : list string) (p : profile) : bool :=
  samples_meet tol p view (p_sample p) && header_meets p st pt period && locations_mapped p files.

Definition mapsec_files (m : mapsec) : list string := map dm_file (ms_entries m).
