(* C17 -- placeholder while the pipeline is brought up *)
From PV Require Import M_Stacks S_Stacks.
Theorem first_index_nil : forall x, first_index x [] = None.
Proof. reflexivity. Qed.
Print Assumptions first_index_nil.
