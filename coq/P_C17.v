(* C17 -- Flame-graph stack data is a faithful, self-consistent index of samples.
   Property theorems only: each is closed by [exact] of a lemma from L_Stacks and followed by
   Print Assumptions.  They hold for ALL profiles (recursion, inlining, lines without function,
   empty stacks, locations without lines, equal names in different files), all report options and
   all answers of the two oracles (graph.ShortenFunctionName, filepath.Clean).
   [stacks_of] is the model of Report.Stacks (M_Stacks); [expected_keys], [stack_matches],
   [first_index], [self_sum], [sum_values] are the specification (S_Stacks). *)
From PV Require Import M_Report.
From PV Require Import M_Stacks S_Stacks L_Stacks M_Handoff S_Handoff L_Handoff M_StacksGlue L_StacksGlue.
Open Scope string_scope.
Open Scope Z_scope.
Open Scope list_scope.

Section C17.
  Variable shorten clean : string -> string.
  Variable o : opts.
  Variable p : profile.
  Let R := stacks_of shorten clean o p.
  Let stacks := ss_stacks R.
  Let srcs := ss_sources R.

  (* one stack per sample, in sample order, carrying the selected sample value *)
  Theorem one_stack_per_sample :
    List.length stacks = List.length (p_sample p)
    /\ map sk_value stacks = map (fun s => value_at (o_index o) (s_val s)) (p_sample p).
  Proof. exact (one_stack_lemma shorten clean o p). Qed.

  (* every stack is the synthetic root followed by the sample's frames, caller to callee, inlined
     frames expanded and flagged: slot by slot the source says the frame's name(+line info), file
     and inlined flag; no frame slot uses the root source *)
  Theorem stack_frames_are_sample_frames :
    Forall2 (fun k sk => stack_matches o srcs k (fst sk) (snd sk)) stacks (combine (p_sample p) (expected_keys p)).
  Proof. exact (stack_matches_lemma shorten clean o p). Qed.

  (* source 0 is the synthetic root and the only source that is not the image of a frame key *)
  Theorem synthetic_root :
    exists r rest, srcs = r :: rest /\ so_full r = "root" /\ so_key r = None /\ Forall (fun s => so_key s <> None) rest.
  Proof. exact (root_lemma shorten clean o p). Qed.

  (* the same, remembering under which frame key each source was interned ... *)
  Theorem stack_frames_keyed :
    Forall2 (stack_keyed o srcs) stacks (combine (p_sample p) (expected_keys p)).
  Proof. exact (stack_frames_lemma shorten clean o p). Qed.

  (* ... and interning is injective: one source per frame key (name, file, line, column, inlined),
     so two slots share a source exactly when they show the same key; in particular functions with
     equal names in different files are kept apart *)
  Theorem sources_injective : forall i i' src src',
    nth_error srcs i = Some src -> nth_error srcs i' = Some src' -> so_key src = so_key src' -> i = i'.
  Proof. exact (injective_lemma shorten clean o p). Qed.

  (* stack values sum to the signed total of the selected sample value (exact integers) *)
  Theorem values_sum_to_signed_total :
    sum_values stacks = fold_right (fun s acc => value_at (o_index o) (s_val s) + acc) 0 (p_sample p).
  Proof. exact (values_sum_lemma shorten clean o p). Qed.

  (* Self of a source = sum of the values of the stacks it terminates; Go accumulates in int64, so
     the equality is modulo 2^64 in general and exact whenever the sum fits int64 *)
  Theorem self_is_sum_of_terminating_stacks : forall x src,
    nth_error srcs x = Some src -> so_self src = wrap_i64 (self_sum x stacks).
  Proof. exact (self_lemma shorten clean o p). Qed.

  Theorem self_exact_without_overflow : forall x src,
    nth_error srcs x = Some src -> - two63 <= self_sum x stacks < two63 -> so_self src = self_sum x stacks.
  Proof. exact (self_exact_lemma shorten clean o p). Qed.

  (* Places of source x = exactly the pairs (stack i, first index of x in stack i) *)
  Theorem places_exact : forall x src i j, nth_error srcs x = Some src ->
    (In (i, j) (so_places src) <->
     exists k, nth_error stacks i = Some k /\ first_index x (sk_sources k) = Some j).
  Proof. exact (places_lemma shorten clean o p). Qed.

  Theorem places_no_duplicate_stack : forall x src,
    nth_error srcs x = Some src -> NoDup (map fst (so_places src)).
  Proof. exact (places_nodup_lemma shorten clean o p). Qed.

  (* a place is in range, points at x, and at its outermost occurrence *)
  Theorem places_outermost_in_range : forall x src i j, nth_error srcs x = Some src -> In (i, j) (so_places src) ->
    exists k, nth_error stacks i = Some k /\ nth_error (sk_sources k) j = Some x
              /\ forall j', (j' < j)%nat -> nth_error (sk_sources k) j' <> Some x.
  Proof. exact (places_outermost_lemma shorten clean o p). Qed.

  (* every stack that contains x is listed *)
  Theorem places_complete : forall x src i k, nth_error srcs x = Some src -> nth_error stacks i = Some k ->
    In x (sk_sources k) -> exists j, In (i, j) (so_places src).
  Proof. exact (places_complete_lemma shorten clean o p). Qed.

  (* every source index stored in a stack is in range *)
  Theorem indices_in_range :
    Forall (fun k => Forall (fun i => (i < List.length srcs)%nat) (sk_sources k)) stacks.
  Proof. exact (range_lemma shorten clean o p). Qed.

  Theorem display_nonempty : Forall (fun src => so_display src <> []) srcs.
  Proof. exact (display_lemma shorten clean o p). Qed.
End C17.

Print Assumptions one_stack_per_sample.
Print Assumptions stack_frames_are_sample_frames.
Print Assumptions synthetic_root.
Print Assumptions stack_frames_keyed.
Print Assumptions sources_injective.
Print Assumptions values_sum_to_signed_total.
Print Assumptions self_is_sum_of_terminating_stacks.
Print Assumptions self_exact_without_overflow.
Print Assumptions places_exact.
Print Assumptions places_no_duplicate_stack.
Print Assumptions places_outermost_in_range.
Print Assumptions places_complete.
Print Assumptions indices_in_range.
Print Assumptions display_nonempty.

(* equal-named functions in different files are different sources even when path trimming (trim_path,
   the built-in /proc/self/cwd/ prefixes) makes their displayed file names coincide: interning is by
   the function's own file name *)
Theorem trimmed_files_kept_apart : forall shorten clean o p i i' src src' k k',
  nth_error (ss_sources (stacks_of shorten clean o p)) i = Some src ->
  nth_error (ss_sources (stacks_of shorten clean o p)) i' = Some src' ->
  so_key src = Some k -> so_key src' = Some k' -> k_file k <> k_file k' ->
  trim_path (o_trim o) (k_file k) = trim_path (o_trim o) (k_file k') -> i <> i'.
Proof. exact files_apart_lemma. Qed.
Print Assumptions trimmed_files_kept_apart.

(* Total of the stack set = the sum of the magnitudes of the selected value over ALL samples -- a
   sample with an empty stack included -- (over the difference-base samples when they carry weight;
   divided by the summed mean divisor when one is selected), wherever int64 cannot overflow *)
Theorem total_is_sum_of_magnitudes : forall shorten clean o p t,
  total_spec o p = Some t -> ss_total (stacks_of shorten clean o p) = t.
Proof. exact stacks_total_lemma. Qed.
Print Assumptions total_is_sum_of_magnitudes.

(* Stacks() is an observation: any sequence of calls, on any reports sharing the profile (options
   [os], one per call), returns for EVERY call the stack set of the original profile -- to which all
   theorems above apply -- and leaves the profile as it was.  (The implementation side of this is
   checked by the call-sequence cases: every served stack set is judged against the original
   profile, and the profile is dumped again after the calls.) *)
Theorem stacks_repeatable : forall shorten clean os p,
  stacks_calls shorten clean os p = (map (fun o => stacks_of shorten clean o p) os, p).
Proof. exact stacks_calls_lemma. Qed.
Print Assumptions stacks_repeatable.

(* -- the JSON hand-off to the page ("so the client never dereferences a missing element") --
   stackView marshals with json.Marshal (HTML escaping on) and copies the bytes into an inline script
   element.  A JSON string literal so encoded never contains "<", whatever the name ... *)
Theorem json_string_html_no_lt : forall s, no_lt (json_string_html s) = true.
Proof. exact json_string_html_no_lt_lemma. Qed.
Print Assumptions json_string_html_no_lt.

(* ... and a script text made of pieces without "<" (JSON punctuation, numbers, such literals)
   followed by the end tag is delimited by the HTML tokenizer exactly where the server ended it, so
   the client receives the whole call, for all names, files and whatever follows on the page *)
Theorem script_element_intact : forall t after, no_lt t = true ->
  script_data_end (t ++ "</script>" ++ after) = Some (String.length t).
Proof. exact script_intact_lemma. Qed.
Print Assumptions script_element_intact.

(* a leading text without "<" only moves the offset (the harness ships its length, not its bytes) *)
Theorem script_end_skips_text_without_lt : forall t rest, no_lt t = true ->
  script_data_end (t ++ rest) = script_data_end_from (String.length t) rest.
Proof. exact script_end_skip_lemma. Qed.
Print Assumptions script_end_skips_text_without_lt.

Theorem handoff_delivers_whole_call : forall pieces after,
  Forall (fun x => no_lt x = true) pieces ->
  script_delivers (concat_str pieces ++ "</script>" ++ after) (String.length (concat_str pieces)) = true.
Proof. exact script_delivers_lemma. Qed.
Print Assumptions handoff_delivers_whole_call.

(* -- end to end: `pprof -http <flags> profile`, then a history of requests --------------------
   [flamegraph_request f u loaded] is the glue model: command-line flags f, URL parameters u, the
   profile as loaded.  A session answers every request as a fresh session would (no report, no
   configuration and no profile state survives a request) ... *)
Theorem web_session_history_irrelevant : forall st reqs,
  serve st reqs = (map (fun u => flamegraph_request (fst st) u (snd st)) reqs, st).
Proof. exact serve_lemma. Qed.
Print Assumptions web_session_history_irrelevant.

(* ... a sample index given in the URL decides alone: whatever -sample_index / legacy selection
   flags were given on the command line, the answer is the same ... *)
Theorem url_sample_index_overrides_command_line : forall f f' u p,
  u_si u <> "" ->
  gf_mean f = gf_mean f' -> (forall x, existsb (String.eqb x) (gf_legacy f) = existsb (String.eqb x) (gf_legacy f')) ->
  gf_gran f = gf_gran f' -> gf_noinlines f = gf_noinlines f' -> gf_columns f = gf_columns f' -> gf_trim f = gf_trim f' ->
  flamegraph_request f u p = flamegraph_request f' u p.
Proof. exact url_si_wins_lemma. Qed.
Print Assumptions url_sample_index_overrides_command_line.

(* ... and whatever flags and URL parameters are given, the page holds one stack per sample of the
   profile THE USER LOADED, in order, with that sample's selected value (aggregation renames frames,
   it never merges or drops samples) *)
Theorem flamegraph_one_stack_per_loaded_sample : forall shorten clean f u loaded o unit p,
  flamegraph_request f u loaded = WebOk o unit p ->
  let R := stacks_of shorten clean o p in
  List.length (ss_stacks R) = List.length (p_sample loaded)
  /\ map sk_value (ss_stacks R) = map (fun s => value_at (o_index o) (s_val s)) (p_sample loaded).
Proof. exact e2e_one_stack_lemma. Qed.
Print Assumptions flamegraph_one_stack_per_loaded_sample.

Theorem flamegraph_default_granularity : forall g,
  stack_view_gran g = "filefunctions" <-> (g = "" \/ g = "filefunctions").
Proof. exact default_gran_lemma. Qed.
Print Assumptions flamegraph_default_granularity.

(* the model walks frames in the order the specification describes them (Go's two descending loops
   with "inlined := j != len-1" = outermost line first, the others flagged) *)
Theorem loops_visit_spec_frames : forall p s, sample_lines p s = sample_frames p s.
Proof. exact sample_lines_frames. Qed.
Print Assumptions loops_visit_spec_frames.

(* -- non-vacuity / worked example: recursion f -> g(inlined into f) -> f, equal names in two files -- *)
Definition ex_profile : profile :=
  {| p_sampletype := [{| vt_type := "cpu"; vt_unit := "ns" |}]; p_defaultsampletype := "";
     p_sample := [ {| s_loc := [1; 3; 1]; s_val := [5]; s_label := []; s_numlabel := []; s_numunit := [] |};
                   {| s_loc := [2]; s_val := [-3]; s_label := []; s_numlabel := []; s_numunit := [] |};
                   {| s_loc := []; s_val := [4]; s_label := []; s_numlabel := []; s_numunit := [] |} ];
     p_mapping := [];
     p_location := [ {| l_id := 1; l_mapping := 0; l_addr := 0; l_lines := [{| ln_fn := 1; ln_line := 3; ln_col := 0 |}]; l_folded := false |};
                     {| l_id := 2; l_mapping := 0; l_addr := 0; l_lines := [{| ln_fn := 2; ln_line := 3; ln_col := 0 |}]; l_folded := false |};
                     {| l_id := 3; l_mapping := 0; l_addr := 0;
                        l_lines := [{| ln_fn := 7; ln_line := 9; ln_col := 2 |}; {| ln_fn := 1; ln_line := 3; ln_col := 0 |}]; l_folded := false |} ];
     p_function := [ {| f_id := 1; f_name := "f"; f_sysname := "f"; f_file := "a.go"; f_startline := 0 |};
                     {| f_id := 2; f_name := "f"; f_sysname := "f"; f_file := "b.go"; f_startline := 0 |};
                     {| f_id := 7; f_name := "g"; f_sysname := "g"; f_file := "a.go"; f_startline := 0 |} ];
     p_comments := []; p_docurl := ""; p_dropframes := ""; p_keepframes := "";
     p_timenanos := 0; p_durationnanos := 0; p_periodtype := None; p_period := 0 |}.
Definition ex_opts : opts := {| o_index := 0; o_meandiv := None; o_type := "cpu"; o_trim := "" |}.
Definition ex_R := stacks_of (fun s => s) (fun s => s) ex_opts ex_profile.

(* stack 0 is root, f, f(again: same source), g inlined, f ; "f" of b.go is a different source with
   the disambiguated unique name; the empty stack is the root alone and its value is the root's self *)
Example ex_stacks : map sk_sources (ss_stacks ex_R) = [[0; 1; 1; 2; 1]; [0; 3]; [0]]%nat.
Proof. vm_compute. reflexivity. Qed.
Example ex_sources :
  map (fun s => (so_full s, so_file s, so_unique s, so_inl s, so_self s)) (ss_sources ex_R)
  = [("root", "", "", false, 4); ("f:3", "a.go", "f:3", false, 5); ("g:9:2", "a.go", "g:9:2", true, 0);
     ("f:3", "b.go", "f:3#2", false, -3)].
Proof. vm_compute. reflexivity. Qed.
Example ex_places :
  map so_places (ss_sources ex_R) = [[(0, 0); (1, 0); (2, 0)]; [(0, 1)]; [(0, 3)]; [(1, 1)]]%nat.
Proof. vm_compute. reflexivity. Qed.
Example ex_checker_accepts : check_stackset ex_opts ex_profile 0 ex_R = true.
Proof. vm_compute. reflexivity. Qed.

(* hand-off examples: the encoder escapes what would end the script; without HTML escaping (the
   encoder the model does NOT use) the tokenizer cuts the element inside the literal; the escaped
   states: after "<!--<script>" an end tag does not close the element *)
Example ex_json_string : json_string_html "a</script>&" = (dq ++ "a" ++ bs ++ "u003c/script" ++ bs ++ "u003e" ++ bs ++ "u0026" ++ dq)%string.
Proof. vm_compute. reflexivity. Qed.
Example ex_cut_without_html_escaping :
  script_data_end ("f(" ++ json_string false "a</ScRiPt >b" ++ ");</script>") = Some 4%nat.
Proof. vm_compute. reflexivity. Qed.
Example ex_intact_with_html_escaping :
  script_data_end ("f(" ++ json_string_html "a</ScRiPt >b" ++ ");</script>")
  = Some (String.length ("f(" ++ json_string_html "a</ScRiPt >b" ++ ");")).
Proof. vm_compute. reflexivity. Qed.
Example ex_double_escaped : script_data_end "x<!--<script>y</script>z</script>" = Some 24%nat.
Proof. vm_compute. reflexivity. Qed.
Example ex_never_closed : script_data_end "x<!--<script>y</script>" = None.
Proof. vm_compute. reflexivity. Qed.
