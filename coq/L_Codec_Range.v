(* C02 -> C01 bridge: what the protobuf parser returns is a VALID profile in the sense of S_Codec
   (ranges of every decoded number, sorted regrouped labels, listed references) with well-formed unit
   lists, so the round-trip theorems of C01 apply to "anything the parser returns": in particular a
   parsed profile that CheckValid accepts can be copied (Copy = parse(serialize)) and the copy is its
   normal form.  Range facts: decodeVarint's result fits 64 bits (each 7-bit group lands on its own bit
   range); int64 fields are wrap_i64 of it. *)
From Coq Require Import ZArith Znumtheory List Lia Bool String.
From PV Require Import M_Profile M_Codec L_Codec_Wire L_Codec_Total S_Codec M_Valid S_Valid L_Valid L_Codec_Parsed
  L_Codec_Regroup L_Codec_Main L_Codec_Norm.
Import ListNotations.
Open Scope string_scope.
Open Scope Z_scope.

(* decodeVarint's result fits 64 bits: each 7-bit group lands on its own bit range *)
Lemma decode_varint_go_range fuel : forall shift acc data u rest,
  0 <= shift -> shift + 7 * Z.of_nat fuel = 70 -> 0 <= acc < 2 ^ shift ->
  decode_varint_go fuel shift acc data = Ok (u, rest) -> 0 <= u < two64.
Proof.
  induction fuel as [|fuel IH]; intros shift acc data u rest Hs Hf Ha H; cbn [decode_varint_go] in H; [discriminate|].
  destruct data as [|b r]; [discriminate|].
  assert (Hb : 0 <= b mod 128 < 128) by (apply Z.mod_pos_bound; lia).
  assert (Hp : 0 < 2 ^ shift) by (apply Z.pow_pos_nonneg; lia).
  destruct fuel as [|fuel'].
  - (* last group: shift = 63 *)
    assert (shift = 63) by lia. subst shift.
    assert (Hm : 0 <= (b mod 128 * 2 ^ 63) mod two64 < two64) by (apply Z.mod_pos_bound; reflexivity).
    assert (Hd : ((b mod 128 * 2 ^ 63) mod two64) mod 2 ^ 63 = 0).
    { rewrite <- (Znumtheory.Zmod_div_mod (2 ^ 63) two64 (b mod 128 * 2 ^ 63)); try reflexivity.
      - apply Z.mod_mul. lia.
      - exists 2. reflexivity. }
    assert (Hv : (b mod 128 * 2 ^ 63) mod two64 = 0 \/ (b mod 128 * 2 ^ 63) mod two64 = 2 ^ 63).
    { remember ((b mod 128 * 2 ^ 63) mod two64) as t.
      assert (t = 2 ^ 63 * (t / 2 ^ 63)) by (rewrite (Z.div_mod t (2^63)) at 1 by lia; lia).
      assert (0 <= t / 2 ^ 63 < 2).
      { split; [apply Z.div_pos; lia|]. apply Z.div_lt_upper_bound; [lia|]. change (2 ^ 63 * 2) with two64. lia. }
      assert (t / 2 ^ 63 = 0 \/ t / 2 ^ 63 = 1) by lia. lia. }
    destruct (b <? 128).
    + inversion H; subst. change two64 with (2 ^ 63 + 2 ^ 63). lia.
    + cbn [decode_varint_go] in H. discriminate.
  - assert (Hsh : shift <= 56) by lia.
    assert (Hlt : b mod 128 * 2 ^ shift < 2 ^ (shift + 7)).
    { rewrite Z.pow_add_r by lia. change (2 ^ 7) with 128. nia. }
    assert (Hle : 2 ^ (shift + 7) <= two64).
    { change two64 with (2 ^ 64). apply Z.pow_le_mono_r; lia. }
    rewrite Z.mod_small in H by nia.
    assert (Hacc : 0 <= acc + b mod 128 * 2 ^ shift < 2 ^ (shift + 7)).
    { rewrite Z.pow_add_r by lia. change (2 ^ 7) with 128. nia. }
    destruct (b <? 128).
    + inversion H; subst. lia.
    + eapply IH; [| |exact Hacc|exact H]; lia.
Qed.

Lemma decode_varint_range data u rest : decode_varint data = Ok (u, rest) -> 0 <= u < two64.
Proof. unfold decode_varint. apply decode_varint_go_range; [lia|reflexivity|simpl; lia]. Qed.


Definition U64 (z : Z) : Prop := 0 <= z < two64.
Definition I64 (z : Z) : Prop := - two63 <= z < two63.

Lemma i64_I64 u : I64 (i64 u).
Proof.
  unfold I64, i64, wrap_i64.
  assert (0 <= (u + two63) mod two64 < two64) by (apply Z.mod_pos_bound; reflexivity).
  change two64 with (two63 + two63) in *. lia.
Qed.

Definition wf_wire (w : wire) : Prop := match w with WVarint u => U64 u | _ => True end.

Lemma decode_field_wf data t w rest : decode_field data = Ok ((t, w), rest) -> wf_wire w.
Proof.
  unfold decode_field. intros H.
  destruct (decode_varint data) as [[x d1]|c|c]; cbn [bind] in H; try discriminate.
  destruct (x mod 8 =? 0).
  { destruct (decode_varint d1) as [[u d2]|c|c] eqn:E; cbn [bind] in H; try discriminate.
    inversion H; subst. exact (decode_varint_range _ _ _ E). }
  destruct (x mod 8 =? 1).
  { destruct (len d1 <? 8); [discriminate|].
    destruct (slice_to 101 8 d1); cbn [bind] in H; try discriminate.
    destruct (slice_from 102 8 d1); cbn [bind] in H; try discriminate. inversion H; subst. exact I. }
  destruct (x mod 8 =? 2).
  { destruct (decode_varint d1) as [[n d2]|c|c]; cbn [bind] in H; try discriminate.
    destruct (len d2 <? n); [discriminate|].
    destruct (slice_to 103 n d2); cbn [bind] in H; try discriminate.
    destruct (slice_from 104 n d2); cbn [bind] in H; try discriminate. inversion H; subst. exact I. }
  destruct (x mod 8 =? 5).
  { destruct (len d1 <? 4); [discriminate|].
    destruct (slice_to 105 4 d1); cbn [bind] in H; try discriminate.
    destruct (slice_from 106 4 d1); cbn [bind] in H; try discriminate. inversion H; subst. exact I. }
  discriminate.
Qed.

(* an invariant kept by every field decoder is kept by the decoding loop *)
Lemma decode_loop_inv {S} (apply : S -> field -> res S) (Inv : S -> Prop) :
  (forall s t w s', wf_wire w -> Inv s -> apply s (t, w) = Ok s' -> Inv s') ->
  forall fuel data s s', Inv s -> decode_loop fuel apply data s = Ok s' -> Inv s'.
Proof.
  intros HA. induction fuel as [|fuel IH]; intros data s s' Hi H.
  - destruct data; cbn [decode_loop] in H; [inversion H; subst; exact Hi|discriminate].
  - destruct data as [|b r]; cbn [decode_loop] in H; [inversion H; subst; exact Hi|].
    destruct (decode_field (b :: r)) as [[[t w] rest]|c|c] eqn:E; cbn [bind] in H; try discriminate.
    destruct (apply s (t, w)) as [s1|c|c] eqn:EA; cbn [bind] in H; try discriminate.
    eapply IH; [|exact H]. eapply HA; [exact (decode_field_wf _ _ _ _ E)|exact Hi|exact EA].
Qed.

Lemma decode_message_inv {S} (apply : S -> field -> res S) (Inv : S -> Prop) :
  (forall s t w s', wf_wire w -> Inv s -> apply s (t, w) = Ok s' -> Inv s') ->
  forall data s s', Inv s -> decode_message apply data s = Ok s' -> Inv s'.
Proof. intros HA data s s'. unfold decode_message. apply decode_loop_inv. exact HA. Qed.

Lemma sub_message_inv {S} (apply : S -> field -> res S) (Inv : S -> Prop) w s0 s' :
  (forall s t w s', wf_wire w -> Inv s -> apply s (t, w) = Ok s' -> Inv s') ->
  Inv s0 -> sub_message apply w s0 = Ok s' -> Inv s'.
Proof.
  intros HA H0 H. unfold sub_message in H. destruct w; try discriminate.
  eapply decode_message_inv; eauto.
Qed.

Lemma dec_uint64_U w x : wf_wire w -> dec_uint64 w = Ok x -> U64 x.
Proof. destruct w; simpl; intros Hw H; try discriminate. inversion H; subst. exact Hw. Qed.
Lemma dec_int64_I w x : dec_int64 w = Ok x -> I64 x.
Proof. destruct w; simpl; intros H; try discriminate. inversion H; subst. apply i64_I64. Qed.

Lemma decode_varints_U : forall fuel data l, decode_varints fuel data = Ok l -> Forall U64 l.
Proof.
  induction fuel as [|fuel IH]; intros data l H.
  - destruct data; cbn [decode_varints] in H; [inversion H; constructor|discriminate].
  - destruct data as [|b r]; cbn [decode_varints] in H; [inversion H; constructor|].
    destruct (decode_varint (b :: r)) as [[u rest]|c|c] eqn:E; cbn [bind] in H; try discriminate.
    destruct (decode_varints fuel rest) as [l'|c|c] eqn:E2; cbn [bind] in H; try discriminate.
    inversion H; subst. constructor; [exact (decode_varint_range _ _ _ E)|eapply IH; exact E2].
Qed.

Lemma dec_uint64s_U w acc l : wf_wire w -> Forall U64 acc -> dec_uint64s w acc = Ok l -> Forall U64 l.
Proof.
  destruct w; simpl; intros Hw Ha H; try discriminate.
  - inversion H; subst. apply Forall_app. split; [exact Ha|constructor; [exact Hw|constructor]].
  - destruct (decode_varints (List.length b) b) as [l'|c|c] eqn:E; cbn [bind] in H; try discriminate.
    inversion H; subst. apply Forall_app. split; [exact Ha|eapply decode_varints_U; exact E].
Qed.

Lemma dec_int64s_I w acc l : Forall I64 acc -> dec_int64s w acc = Ok l -> Forall I64 l.
Proof.
  destruct w; simpl; intros Ha H; try discriminate.
  - inversion H; subst. apply Forall_app. split; [exact Ha|constructor; [apply i64_I64|constructor]].
  - destruct (decode_varints (List.length b) b) as [l'|c|c]; cbn [bind] in H; try discriminate.
    inversion H; subst. apply Forall_app. split; [exact Ha|].
    apply Forall_forall. intros x Hx. apply in_map_iff in Hx as [y [<- _]]. apply i64_I64.
Qed.

Definition I_line (l : rline) : Prop := U64 (rln_fn l) /\ I64 (rln_line l) /\ I64 (rln_col l).
Definition I_loc (l : rlocation) : Prop :=
  U64 (rloc_id l) /\ U64 (rloc_mapping l) /\ U64 (rloc_addr l) /\ Forall I_line (rloc_lines l).
Definition I_map (m : rmapping) : Prop := U64 (rm_id m) /\ U64 (rm_start m) /\ U64 (rm_limit m) /\ U64 (rm_offset m).
Definition I_fn (f : rfunction) : Prop := U64 (rf_id f) /\ I64 (rf_startline f).
Definition I_label (l : rlabel) : Prop := I64 (rl_num l).
Definition I_sample (s : rsample) : Prop :=
  Forall U64 (rs_loc s) /\ Forall I64 (rs_val s) /\ Forall I_label (rs_label s).
Definition I_prof (r : rprofile) : Prop :=
  Forall I_sample (rp_sample r) /\ Forall I_map (rp_mapping r) /\ Forall I_loc (rp_location r) /\
  Forall I_fn (rp_function r) /\ I64 (rp_time r) /\ I64 (rp_duration r) /\ I64 (rp_period r).

Lemma U64_0 : U64 0. Proof. unfold U64. change two64 with (2^64). lia. Qed.
Lemma I64_0 : I64 0. Proof. unfold I64. change two63 with (2^63). lia. Qed.

Ltac bind_step H :=
  match type of H with
  | context [bind ?e _] => let E := fresh "E" in destruct e eqn:E; cbn [bind] in H; try discriminate
  end.
Ltac fin H := inversion H; subst; clear H.
Ltac close := unfold I_line, I_loc, I_map, I_fn, I_sample, I_label; repeat (match goal with |- _ /\ _ => split end); cbn;
  try assumption; try (eapply dec_uint64_U; eassumption); try (eapply dec_int64_I; eassumption);
  try (eapply dec_uint64s_U; eassumption); try (eapply dec_int64s_I; eassumption).

Lemma app_line_inv s t w s' : wf_wire w -> I_line s -> app_line s (t, w) = Ok s' -> I_line s'.
Proof.
  intros Hw (A & B & C) H. unfold app_line in H.
  destruct (t =? 1). { bind_step H. fin H. close. }
  destruct (t =? 2). { bind_step H. fin H. close. }
  destruct (t =? 3). { bind_step H. fin H. close. }
  fin H. close.
Qed.

Lemma I_line0 : I_line rline0. Proof. close; auto using U64_0, I64_0. Qed.

Lemma app_location_inv s t w s' : wf_wire w -> I_loc s -> app_location s (t, w) = Ok s' -> I_loc s'.
Proof.
  intros Hw (A & B & C & D) H. unfold app_location in H.
  destruct (t =? 1). { bind_step H. fin H. close. }
  destruct (t =? 2). { bind_step H. fin H. close. }
  destruct (t =? 3). { bind_step H. fin H. close. }
  destruct (t =? 4).
  { bind_step H. fin H. close. apply Forall_app. split; [exact D|].
    constructor; [|constructor]. eapply (sub_message_inv app_line I_line); [exact app_line_inv|exact I_line0|exact E]. }
  destruct (t =? 5). { bind_step H. fin H. close. }
  fin H. close.
Qed.
Lemma I_loc0 : I_loc rlocation0. Proof. close; auto using U64_0. Qed.

Lemma app_mapping_inv s t w s' : wf_wire w -> I_map s -> app_mapping s (t, w) = Ok s' -> I_map s'.
Proof.
  intros Hw (A & B & C & D) H. unfold app_mapping in H.
  destruct (t =? 1). { bind_step H. fin H. close. }
  destruct (t =? 2). { bind_step H. fin H. close. }
  destruct (t =? 3). { bind_step H. fin H. close. }
  destruct (t =? 4). { bind_step H. fin H. close. }
  destruct (t =? 5). { bind_step H. fin H. close. }
  destruct (t =? 6). { bind_step H. fin H. close. }
  destruct (t =? 7). { bind_step H. fin H. close. }
  destruct (t =? 8). { bind_step H. fin H. close. }
  destruct (t =? 9). { bind_step H. fin H. close. }
  destruct (t =? 10). { bind_step H. fin H. close. }
  fin H. close.
Qed.
Lemma I_map0 : I_map rmapping0. Proof. close; auto using U64_0. Qed.

Lemma app_function_inv s t w s' : wf_wire w -> I_fn s -> app_function s (t, w) = Ok s' -> I_fn s'.
Proof.
  intros Hw (A & B) H. unfold app_function in H.
  destruct (t =? 1). { bind_step H. fin H. close. }
  destruct (t =? 2). { bind_step H. fin H. close. }
  destruct (t =? 3). { bind_step H. fin H. close. }
  destruct (t =? 4). { bind_step H. fin H. close. }
  destruct (t =? 5). { bind_step H. fin H. close. }
  fin H. close.
Qed.
Lemma I_fn0 : I_fn rfunction0. Proof. close; auto using U64_0, I64_0. Qed.

Lemma app_label_inv s t w s' : wf_wire w -> I_label s -> app_label s (t, w) = Ok s' -> I_label s'.
Proof.
  intros Hw A H. unfold app_label in H. unfold I_label in *.
  destruct (t =? 1). { bind_step H. fin H. cbn; assumption. }
  destruct (t =? 2). { bind_step H. fin H. cbn; assumption. }
  destruct (t =? 3). { bind_step H. fin H. cbn. eapply dec_int64_I; eassumption. }
  destruct (t =? 4). { bind_step H. fin H. cbn; assumption. }
  fin H. assumption.
Qed.
Lemma I_label0 : I_label rlabel0. Proof. unfold I_label; cbn. apply I64_0. Qed.

Lemma app_sample_inv s t w s' : wf_wire w -> I_sample s -> app_sample s (t, w) = Ok s' -> I_sample s'.
Proof.
  intros Hw (A & B & C) H. unfold app_sample in H.
  destruct (t =? 1). { bind_step H. fin H. close. }
  destruct (t =? 2). { bind_step H. fin H. close. }
  destruct (t =? 3).
  { bind_step H. fin H. close. apply Forall_app. split; [exact C|].
    constructor; [|constructor]. eapply (sub_message_inv app_label I_label); [exact app_label_inv|exact I_label0|exact E]. }
  fin H. close.
Qed.
Lemma I_sample0 : I_sample rsample0. Proof. close; constructor. Qed.
Ltac ssplit := repeat (match goal with |- _ /\ _ => split end).

Lemma I_prof0 : I_prof rprofile0.
Proof. unfold I_prof; cbn. ssplit; try constructor; apply I64_0. Qed.

Lemma app_profile_inv s t w s' : wf_wire w -> I_prof s -> app_profile s (t, w) = Ok s' -> I_prof s'.
Proof.
  intros Hw (A & B & C & D & E1 & E2 & E3) H. unfold app_profile in H.
  destruct (t =? 1). { bind_step H. fin H. unfold I_prof, rp_upd; cbn. ssplit; assumption. }
  destruct (t =? 2).
  { bind_step H. fin H. unfold I_prof, rp_upd; cbn. ssplit; try assumption.
    apply Forall_app. split; [exact A|]. constructor; [|constructor].
    eapply (sub_message_inv app_sample I_sample); [exact app_sample_inv|exact I_sample0|eassumption]. }
  destruct (t =? 3).
  { bind_step H. fin H. unfold I_prof, rp_upd; cbn. ssplit; try assumption.
    apply Forall_app. split; [exact B|]. constructor; [|constructor].
    eapply (sub_message_inv app_mapping I_map); [exact app_mapping_inv|exact I_map0|eassumption]. }
  destruct (t =? 4).
  { bind_step H. fin H. unfold I_prof, rp_upd; cbn. ssplit; try assumption.
    apply Forall_app. split; [exact C|]. constructor; [|constructor].
    eapply (sub_message_inv app_location I_loc); [exact app_location_inv|exact I_loc0|eassumption]. }
  destruct (t =? 5).
  { bind_step H. fin H. unfold I_prof, rp_upd; cbn. ssplit; try assumption.
    apply Forall_app. split; [exact D|]. constructor; [|constructor].
    eapply (sub_message_inv app_function I_fn); [exact app_function_inv|exact I_fn0|eassumption]. }
  destruct (t =? 6).
  { bind_step H.
    match type of H with context [match ?l with [] => _ | _ :: _ => _ end] => destruct l as [|s1 tl] end; [discriminate|].
    destruct (String.eqb s1 ""); [|discriminate]. fin H. unfold I_prof, rp_upd; cbn. ssplit; assumption. }
  destruct (t =? 7). { bind_step H. fin H. unfold I_prof, rp_upd; cbn. ssplit; assumption. }
  destruct (t =? 8). { bind_step H. fin H. unfold I_prof, rp_upd; cbn. ssplit; assumption. }
  destruct (t =? 9).
  { destruct (negb (rp_time s =? 0)); [discriminate|]. bind_step H. fin H. unfold I_prof, rp_upd; cbn.
    ssplit; try assumption. eapply dec_int64_I; eassumption. }
  destruct (t =? 10). { bind_step H. fin H. unfold I_prof, rp_upd; cbn. ssplit; try assumption. eapply dec_int64_I; eassumption. }
  destruct (t =? 11). { bind_step H. fin H. unfold I_prof, rp_upd; cbn. ssplit; assumption. }
  destruct (t =? 12). { bind_step H. fin H. unfold I_prof, rp_upd; cbn. ssplit; try assumption. eapply dec_int64_I; eassumption. }
  destruct (t =? 13). { bind_step H. fin H. unfold I_prof, rp_upd; cbn. ssplit; assumption. }
  destruct (t =? 14). { bind_step H. fin H. unfold I_prof, rp_upd; cbn. ssplit; assumption. }
  destruct (t =? 15). { bind_step H. fin H. unfold I_prof, rp_upd; cbn. ssplit; assumption. }
  fin H. unfold I_prof. ssplit; assumption.
Qed.

Lemma unmarshal_range data r : unmarshal data = Ok r -> I_prof r.
Proof. unfold unmarshal. apply (decode_message_inv app_profile I_prof app_profile_inv). exact I_prof0. Qed.

(* ---- regrouped labels: sorted keys, in-range numeric values ---- *)
Lemma keys_sorted_of {V} (l : list (string * V)) : sorted_keys l -> keys_sorted l = true.
Proof.
  induction l as [|[k v] r IH]; cbn; [reflexivity|]. intros [A S]. apply andb_true_iff. split; [|exact (IH S)].
  apply forallb_forall. intros e He. unfold above in A. rewrite Forall_forall in A. exact (A e He).
Qed.

Lemma assoc_update_Forall {V} (Q : V -> Prop) k (f : option V -> V) :
  (forall o, (forall v, o = Some v -> Q v) -> Q (f o)) ->
  forall l, Forall (fun e => Q (snd e)) l -> Forall (fun e => Q (snd e)) (assoc_update k f l).
Proof.
  intros Hf. induction l as [|[k' v] r IH]; intros H; cbn [assoc_update].
  - constructor; [cbn; apply Hf; intros v0 E; discriminate|constructor].
  - inversion H as [|? ? Hv Hr]; subst. cbn in Hv.
    destruct (String.eqb k k').
    + constructor; [cbn; apply Hf; intros v0 E; inversion E; subst; exact Hv|exact Hr].
    + destruct (str_ltb k k').
      * constructor; [cbn; apply Hf; intros v0 E; discriminate|exact H].
      * constructor; [exact Hv|exact (IH Hr)].
Qed.

Definition ginv2 (g : regroup) : Prop :=
  sorted_keys (g_label g) /\ Forall (fun e => Forall I64 (snd e)) (g_num g).

Lemma post_label_inv2 tab g l g' : I_label l -> post_label tab g l = Ok g' -> ginv2 g -> ginv2 g'.
Proof.
  unfold post_label. intros IL H (SL & NI).
  destruct (get_string tab (rl_key l)) as [key|c|c]; cbn [bind] in H; try discriminate.
  destruct (negb (rl_str l =? 0)).
  { destruct (get_string tab (rl_str l)) as [v|c|c]; cbn [bind] in H; try discriminate.
    inversion H; subst g'. split; cbn; [|exact NI].
    exact (proj1 (assoc_update_spec key _ (g_label g) SL)). }
  destruct (negb (rl_num l =? 0) || negb (rl_unit l =? 0)); [|inversion H; subst; split; assumption].
  assert (NI' : Forall (fun e => Forall I64 (snd e)) (assoc_update key (fun o => (odef [] o ++ [rl_num l])%list) (g_num g))).
  { apply assoc_update_Forall; [|exact NI]. intros o Ho. apply Forall_app. split.
    - destruct o as [v|]; cbn; [exact (Ho v eq_refl)|constructor].
    - constructor; [exact IL|constructor]. }
  destruct (negb (rl_unit l =? 0)); cbn [bind] in H.
  - destruct (get_string tab (rl_unit l)) as [u|c|c]; cbn [bind] in H; try discriminate.
    inversion H; subst g'. split; cbn; assumption.
  - inversion H; subst g'. split; cbn; assumption.
Qed.

Lemma fold_post_label_inv2 tab : forall ls g g',
  Forall I_label ls -> fold_res (post_label tab) ls g = Ok g' -> ginv2 g -> ginv2 g'.
Proof.
  induction ls as [|l ls IH]; intros g g' FL H I; cbn [fold_res] in H; [inversion H; subst; exact I|].
  inversion FL; subst.
  destruct (post_label tab g l) as [g1|c|c] eqn:E; cbn [bind] in H; try discriminate.
  eapply IH; [eassumption|exact H|]. eapply post_label_inv2; eassumption.
Qed.

Lemma sorted_keys_map_fst {V W} (h : string * V -> W) (l : list (string * V)) :
  sorted_keys l -> sorted_keys (map (fun e => (fst e, h e)) l).
Proof.
  induction l as [|[k v] r IH]; cbn; [auto|]. intros [A S]. split; [|exact (IH S)].
  unfold above in *. rewrite Forall_forall in *. intros e He. apply in_map_iff in He as [x [<- Hx]]. cbn. exact (A x Hx).
Qed.

Lemma U64_b z : U64 z -> S_Codec.is_u64 z = true.
Proof. unfold U64, S_Codec.is_u64. intros H. apply andb_true_intro. split; [apply Z.leb_le|apply Z.ltb_lt]; lia. Qed.
Lemma I64_b z : I64 z -> S_Codec.is_i64 z = true.
Proof. unfold I64, S_Codec.is_i64. intros H. apply andb_true_intro. split; [apply Z.leb_le|apply Z.ltb_lt]; lia. Qed.

Lemma forallb_of_Forall {A} (P : A -> Prop) (f : A -> bool) l : (forall a, P a -> f a = true) -> Forall P l -> forallb f l = true.
Proof. intros H F. apply forallb_forall. rewrite Forall_forall in F. intros a Ha. apply H, F, Ha. Qed.

Lemma nodup_z_of l : NoDup l -> nodup_z l = true.
Proof.
  induction 1 as [|a r Hn Hd IH]; cbn; [reflexivity|]. apply andb_true_intro. split; [|exact IH].
  apply negb_true_iff. destruct (existsb (Z.eqb a) r) eqn:E; [|reflexivity].
  apply existsb_exists in E as [x [Hx Ex]]. apply Z.eqb_eq in Ex. subst x. contradiction.
Qed.

Lemma mem_z_of x l : In x l -> mem_z x l = true.
Proof. intros H. unfold mem_z. apply existsb_exists. exists x. split; [exact H|apply Z.eqb_refl]. Qed.

Lemma post_sample_facts tab locids rs s :
  I_sample rs -> post_sample tab locids rs = Ok s ->
  keys_sorted (s_label s) = true /\ keys_sorted (s_numlabel s) = true /\ keys_sorted (s_numunit s) = true /\
  Forall I64 (s_val s) /\ Forall (fun e => Forall I64 (snd e)) (s_numlabel s) /\
  (forall id, In id (s_loc s) -> id = -1 \/ In id locids).
Proof.
  intros (IL & IV & ILb) H. unfold post_sample in H.
  destruct (fold_res (post_label tab) (rs_label rs) {| g_label := []; g_num := []; g_unit := [] |}) as [g|c|c] eqn:EF;
    cbn [bind] in H; try discriminate.
  assert (I0 : ginv {| g_label := []; g_num := []; g_unit := [] |}).
  { split; [exact I|]. split; [exact I|]. intros k. unfold ulen, nlen. cbn. lia. }
  assert (I2 : ginv2 {| g_label := []; g_num := []; g_unit := [] |}) by (split; cbn; [exact I|constructor]).
  destruct (fold_post_label_inv _ _ _ _ EF I0) as (SN & SU & _).
  destruct (fold_post_label_inv2 _ _ _ _ ILb EF I2) as (SL & NI).
  inversion H; subst s; clear H. cbn [s_label s_numlabel s_numunit s_val s_loc].
  split; [exact (keys_sorted_of _ SL)|]. split; [exact (keys_sorted_of _ SN)|].
  split.
  { destruct (g_num g); [reflexivity|]. apply keys_sorted_of. apply sorted_keys_map_fst. exact SU. }
  split; [exact IV|]. split; [exact NI|].
  intros id Hid. apply in_map_iff in Hid as [x [<- Hx]].
  destruct (existsb (Z.eqb x) locids) eqn:E; [right|left; reflexivity].
  apply existsb_exists in E as [y [Hy Ey]]. apply Z.eqb_eq in Ey. subst y. exact Hy.
Qed.
Ltac bsplit := repeat match goal with |- (_ && _) = true => apply andb_true_intro; split end.

Lemma map_res_Forall2_in {A B} (f : A -> res B) l r : map_res f l = Ok r ->
  forall b, In b r -> exists a, In a l /\ f a = Ok b.
Proof.
  intros H. pose proof (map_res_ok _ _ _ H) as F2. clear H.
  induction F2 as [|a b l r Hab _ IH]; intros x Hx; [destruct Hx|].
  destruct Hx as [<-|Hx]; [exists a; split; [now left|exact Hab]|].
  destruct (IH x Hx) as [a' [Ia Ea]]. exists a'. split; [now right|exact Ea].
Qed.

Theorem parsed_valid_lemma data q :
  parse_uncompressed data = Ok q -> check_valid q = true -> valid_b q = true.
Proof.
  intros HP CV.
  unfold parse_uncompressed in HP. destruct data as [|b0 bs]; [discriminate|].
  destruct (unmarshal (b0 :: bs)) as [r|c|c] eqn:EU; cbn [bind] in HP; try discriminate.
  pose proof (unmarshal_range _ _ EU) as (IS & IM & ILc & IF & IT & ID & IP).
  pose proof (post_decode_refs_listed _ _ HP) as (RL1 & RL2).
  unfold check_valid in CV. cbn zeta in CV.
  repeat (apply andb_true_iff in CV as [CV ?]).
  match goal with H0 : forallb _ (p_location q) = true |- _ => rename H0 into VLN end.
  match goal with H0 : negb (first_dup_or_zero (map l_id _) _) = true |- _ => rename H0 into VLI end.
  match goal with H0 : negb (first_dup_or_zero (map f_id _) _) = true |- _ => rename H0 into VFI end.
  match goal with H0 : negb (first_dup_or_zero (map m_id _) _) = true |- _ => rename H0 into VMI end.
  match goal with H0 : forallb _ (p_sample q) = true |- _ => rename H0 into VS end.
  apply negb_true_iff in VLI, VFI, VMI.
  destruct (first_dup_or_zero_spec _ _ VLI) as (NDL & NZL & _).
  destruct (first_dup_or_zero_spec _ _ VFI) as (NDF & NZF & _).
  destruct (first_dup_or_zero_spec _ _ VMI) as (NDM & NZM & _).
  unfold post_decode in HP.
  destruct (map_res (post_mapping (rp_strings r)) (rp_mapping r)) as [ms|c|c] eqn:EMS; cbn [bind] in HP; try discriminate.
  destruct (map_res (post_function (rp_strings r)) (rp_function r)) as [fs|c|c] eqn:EFS; cbn [bind] in HP; try discriminate.
  destruct (map_res (post_valuetype (rp_strings r)) (rp_sampletype r)) as [sts|c|c]; cbn [bind] in HP; try discriminate.
  destruct (map_res (post_sample (rp_strings r) (map rloc_id (rp_location r))) (rp_sample r)) as [ss|c|c] eqn:ESS; cbn [bind] in HP; try discriminate.
  destruct (get_string (rp_strings r) (rp_dropframes r)) as [df|c|c]; cbn [bind] in HP; try discriminate.
  destruct (get_string (rp_strings r) (rp_keepframes r)) as [kf|c|c]; cbn [bind] in HP; try discriminate.
  destruct (post_valuetype (rp_strings r) _) as [pt|c|c]; cbn [bind] in HP; try discriminate.
  destruct (map_res (get_string (rp_strings r)) (rp_comment r)) as [cs|c|c]; cbn [bind] in HP; try discriminate.
  destruct (get_string (rp_strings r) (rp_defaultst r)) as [dst|c|c]; cbn [bind] in HP; try discriminate.
  destruct (get_string (rp_strings r) (rp_docurl r)) as [du|c|c]; cbn [bind] in HP; try discriminate.
  inversion HP; subst q. clear HP. cbn [p_sample p_sampletype p_mapping p_location p_function p_timenanos p_durationnanos p_period] in *.
  (* facts about the converted tables *)
  assert (LID : map l_id (map (post_location (map rm_id (rp_mapping r)) (map rf_id (rp_function r))) (rp_location r)) = map rloc_id (rp_location r)).
  { rewrite map_map. apply map_ext. reflexivity. }
  rewrite LID in *.
  unfold valid_b. cbn zeta. cbn [p_sample p_sampletype p_mapping p_location p_function p_timenanos p_durationnanos p_period].
  rewrite LID.
  bsplit.
  - exact CV.
  - (* samples *)
    apply forallb_forall. intros s Hs.
    destruct (map_res_Forall2_in _ _ _ ESS s Hs) as (rs & Hrs & Ers).
    rewrite Forall_forall in IS.
    destruct (post_sample_facts _ _ _ _ (IS rs Hrs) Ers) as (K1 & K2 & K3 & V1 & V2 & L1).
    rewrite forallb_forall in VS. specialize (VS s Hs). apply andb_true_iff in VS as [VS1 VS2].
    unfold sample_valid. bsplit; try assumption.
    + apply forallb_forall. intros id Hid. apply andb_true_intro.
      assert (Hin : In id (map rloc_id (rp_location r))).
      { destruct (L1 id Hid) as [E|I]; [|exact I]. subst id. apply negb_true_iff in VS2.
        assert (existsb (Z.eqb (-1)) (s_loc s) = true) by (apply existsb_exists; exists (-1); split; [exact Hid|reflexivity]). congruence. }
      split; [|apply mem_z_of; exact Hin].
      apply negb_true_iff. apply Z.eqb_neq. intros E. subst id. exact (NZL Hin).
    + eapply forallb_of_Forall; [exact I64_b|exact V1].
    + eapply forallb_of_Forall; [|exact V2]. intros e He. eapply forallb_of_Forall; [exact I64_b|exact He].
  - (* mapping ids *)
    apply forallb_forall. intros id Hid. apply andb_true_intro. split.
    + apply negb_true_iff. apply Z.eqb_neq. intros E. subst id. exact (NZM Hid).
    + apply in_map_iff in Hid as [m [<- Hm]]. destruct (map_res_Forall2_in _ _ _ EMS m Hm) as (rm & Hrm & Erm).
      rewrite Forall_forall in IM. destruct (IM rm Hrm) as (A & _).
      unfold post_mapping in Erm.
      destruct (get_string (rp_strings r) (rm_file rm)); cbn [bind] in Erm; try discriminate.
      destruct (get_string (rp_strings r) (rm_buildid rm)); cbn [bind] in Erm; try discriminate.
      inversion Erm; subst m. cbn. apply U64_b. exact A.
  - apply nodup_z_of. exact NDM.
  - apply forallb_forall. intros m Hm. destruct (map_res_Forall2_in _ _ _ EMS m Hm) as (rm & Hrm & Erm).
    rewrite Forall_forall in IM. destruct (IM rm Hrm) as (_ & B & C & D).
    unfold post_mapping in Erm.
    destruct (get_string (rp_strings r) (rm_file rm)); cbn [bind] in Erm; try discriminate.
    destruct (get_string (rp_strings r) (rm_buildid rm)); cbn [bind] in Erm; try discriminate.
    inversion Erm; subst m. cbn [m_start m_limit m_offset]. rewrite !U64_b by assumption. reflexivity.
  - (* function ids *)
    apply forallb_forall. intros id Hid. apply andb_true_intro. split.
    + apply negb_true_iff. apply Z.eqb_neq. intros E. subst id. exact (NZF Hid).
    + apply in_map_iff in Hid as [f [<- Hf]]. destruct (map_res_Forall2_in _ _ _ EFS f Hf) as (rf & Hrf & Erf).
      rewrite Forall_forall in IF. destruct (IF rf Hrf) as (A & _).
      unfold post_function in Erf.
      destruct (get_string (rp_strings r) (rf_name rf)); cbn [bind] in Erf; try discriminate.
      destruct (get_string (rp_strings r) (rf_sysname rf)); cbn [bind] in Erf; try discriminate.
      destruct (get_string (rp_strings r) (rf_file rf)); cbn [bind] in Erf; try discriminate.
      inversion Erf; subst f. cbn. apply U64_b. exact A.
  - apply nodup_z_of. exact NDF.
  - apply forallb_forall. intros f Hf. destruct (map_res_Forall2_in _ _ _ EFS f Hf) as (rf & Hrf & Erf).
    rewrite Forall_forall in IF. destruct (IF rf Hrf) as (_ & B).
    unfold post_function in Erf.
    destruct (get_string (rp_strings r) (rf_name rf)); cbn [bind] in Erf; try discriminate.
    destruct (get_string (rp_strings r) (rf_sysname rf)); cbn [bind] in Erf; try discriminate.
    destruct (get_string (rp_strings r) (rf_file rf)); cbn [bind] in Erf; try discriminate.
    inversion Erf; subst f. cbn. apply I64_b. exact B.
  - apply nodup_z_of. exact NDL.
  - (* locations *)
    apply forallb_forall. intros l Hl. apply in_map_iff in Hl as [rl [<- Hrl]].
    rewrite Forall_forall in ILc. destruct (ILc rl Hrl) as (A & B & C & D).
    destruct (RL2 _ (in_map _ _ _ Hrl)) as [RM RF].
    rewrite forallb_forall in VLN. specialize (VLN _ (in_map _ _ _ Hrl)).
    unfold location_valid, post_location in *. cbn [l_id l_addr l_mapping l_lines] in *.
    bsplit.
    + apply negb_true_iff. apply Z.eqb_neq. intros E. apply NZL. rewrite <- E. apply in_map. exact Hrl.
    + apply U64_b; exact A.
    + apply U64_b; exact C.
    + destruct RM as [E|I]; [rewrite E; reflexivity|]. apply orb_true_iff. right. apply mem_z_of. exact I.
    + apply forallb_forall. intros x Hx. rewrite forallb_forall in VLN. pose proof (VLN x Hx) as NZ.
      destruct (RF x Hx) as [E|I]; [rewrite E in NZ; discriminate|].
      apply in_map_iff in Hx as [rx [<- Hrx]]. rewrite Forall_forall in D. destruct (D rx Hrx) as (_ & L1 & L2).
      cbn [ln_fn ln_line ln_col] in *.
      bsplit; [exact NZ|apply mem_z_of; exact I|apply I64_b; exact L1|apply I64_b; exact L2].
  - apply I64_b; exact IT.
  - apply I64_b; exact ID.
  - apply I64_b; exact IP.
Qed.

Lemma units_wf_b_of p :
  Forall (fun s => Forall (units_wf_key (s_numunit s)) (s_numlabel s)) (p_sample p) -> units_wf_b p = true.
Proof.
  intros H. unfold units_wf_b. apply forallb_forall. intros s Hs. rewrite Forall_forall in H.
  specialize (H s Hs). apply forallb_forall. intros e He. rewrite Forall_forall in H. specialize (H e He).
  unfold units_wf_key, ulook in H. unfold units_of, assoc_s. unfold assoc in H.
  destruct (find (fun e0 => String.eqb (fst e0) (fst e)) (s_numunit s)) as [x|]; cbn in *.
  - destruct H as [E|E]; [rewrite E; reflexivity|]. apply orb_true_iff. right. apply Nat.eqb_eq. exact E.
  - reflexivity.
Qed.

Lemma parsed_units_wf data q : parse_uncompressed data = Ok q -> units_wf_b q = true.
Proof.
  intros HP. apply units_wf_b_of.
  unfold parse_uncompressed in HP. destruct data as [|b0 bs]; [discriminate|].
  destruct (unmarshal (b0 :: bs)) as [r|c|c]; cbn [bind] in HP; try discriminate.
  unfold post_decode in HP.
  destruct (map_res (post_mapping (rp_strings r)) (rp_mapping r)) as [ms|c|c]; cbn [bind] in HP; try discriminate.
  destruct (map_res (post_function (rp_strings r)) (rp_function r)) as [fs|c|c]; cbn [bind] in HP; try discriminate.
  destruct (map_res (post_valuetype (rp_strings r)) (rp_sampletype r)) as [sts|c|c]; cbn [bind] in HP; try discriminate.
  destruct (map_res (post_sample (rp_strings r) (map rloc_id (rp_location r))) (rp_sample r)) as [ss|c|c] eqn:ESS; cbn [bind] in HP; try discriminate.
  destruct (get_string (rp_strings r) (rp_dropframes r)) as [df|c|c]; cbn [bind] in HP; try discriminate.
  destruct (get_string (rp_strings r) (rp_keepframes r)) as [kf|c|c]; cbn [bind] in HP; try discriminate.
  destruct (post_valuetype (rp_strings r) _) as [pt|c|c]; cbn [bind] in HP; try discriminate.
  destruct (map_res (get_string (rp_strings r)) (rp_comment r)) as [cs|c|c]; cbn [bind] in HP; try discriminate.
  destruct (get_string (rp_strings r) (rp_defaultst r)) as [dst|c|c]; cbn [bind] in HP; try discriminate.
  destruct (get_string (rp_strings r) (rp_docurl r)) as [du|c|c]; cbn [bind] in HP; try discriminate.
  inversion HP; subst q. cbn [p_sample].
  apply Forall_forall. intros s Hs. destruct (map_res_Forall2_in _ _ _ ESS s Hs) as (rs & _ & Ers).
  eapply post_sample_units_wf; exact Ers.
Qed.

(* "a parsed profile can be copied": Copy of anything the parser returns (and CheckValid accepts)
   succeeds and yields its normal form *)
Theorem parsed_copy_lemma data q r :
  parse_uncompressed data = Ok q -> check_valid q = true -> pre_encode q = Ok r -> size_ok r ->
  copy q = Ok (normalize q).
Proof.
  intros HP CV PE SZ. apply (copy_lemma q r); [exact (parsed_valid_lemma _ _ HP CV)|exact (parsed_units_wf _ _ HP)|exact PE|exact SZ].
Qed.

(* anything the parser returns: written and parsed back it gives its normal form, which is then
   reproduced exactly *)
Lemma parser_output_roundtrip_lemma data q r r' :
  parse_uncompressed data = Ok q -> check_valid q = true ->
  pre_encode q = Ok r -> size_ok r -> pre_encode (normalize q) = Ok r' -> size_ok r' ->
  serialize q = Ok (enc_profile r) /\ parse_uncompressed (enc_profile r) = Ok (normalize q) /\
  serialize (normalize q) = Ok (enc_profile r') /\ parse_uncompressed (enc_profile r') = Ok (normalize q).
Proof.
  intros HP CV PE SZ PE' SZ'.
  pose proof (parsed_valid_lemma data q HP CV) as V.
  pose proof (parsed_units_wf data q HP) as U.
  destruct (write_parse_roundtrip_lemma q r V U PE SZ) as [A B].
  destruct (reparse_fixpoint q r' V PE' SZ') as [C D].
  repeat split; assumption.
Qed.
