(* Executable model of profile/proto.go (wire codec) and profile/encode.go (message codecs,
   preEncode, postDecode) and of serialize / ParseUncompressed / Copy in profile/profile.go.
   Transcribed with the Go code's structure: packed form for len > 2, zero elision, decoder tables,
   interleaved decode-and-apply, dense/sparse id tables ("last definition wins"), label regrouping
   with unit padding.  Go's partial operations (index / slice expressions) are explicit [Panic]
   outcomes guarded exactly as the code guards them.  No proofs here. *)
From PV Require Export M_Profile.
Open Scope string_scope.
Open Scope list_scope.
Open Scope Z_scope.

Definition bytes := list Z.

(* ---------- outcomes ---------- *)
Inductive res (A : Type) :=
| Ok (a : A)
| Err (cls : Z)     (* a Go error value: 1 = generic, 2 = errConcatProfile, 3 = errNoData, 4 = errMalformed *)
| Panic (site : Z). (* a Go run-time panic (index/slice out of range) at the numbered site *)
Arguments Ok {A} a. Arguments Err {A} cls. Arguments Panic {A} site.

Definition bind {A B} (r : res A) (f : A -> res B) : res B :=
  match r with Ok a => f a | Err c => Err c | Panic s => Panic s end.
Notation "x <- c1  ;; c2" := (bind c1 (fun x => c2)) (at level 61, c1 at next level, right associativity).
Notation "' pat <- c1  ;; c2" := (bind c1 (fun x => match x with pat => c2 end))
  (at level 61, pat pattern, c1 at next level, right associativity).

Definition e_generic := 1. Definition e_concat := 2. Definition e_nodata := 3. Definition e_malformed := 4.

Fixpoint fold_res {A S} (f : S -> A -> res S) (l : list A) (s : S) : res S :=
  match l with
  | [] => Ok s
  | a :: r => s' <- f s a ;; fold_res f r s'
  end.

Definition len {A} (l : list A) : Z := Z.of_nat (List.length l).

(* ---------- varint ---------- *)
(* encodeVarint: for x >= 128 { append(byte(x)|0x80); x >>= 7 }; append(byte(x)).  x < 2^64 needs at
   most 10 bytes; fuel 10 (the last byte is emitted when fuel runs out, which cannot happen below 2^70). *)
Fixpoint encode_varint_fuel (fuel : nat) (x : Z) : bytes :=
  match fuel with
  | O => [x mod 256]
  | S f => if x <? 128 then [x] else (x mod 128 + 128) :: encode_varint_fuel f (x / 128)
  end.
Definition encode_varint (x : Z) : bytes := encode_varint_fuel 9 x.

(* decodeVarint: for i := 0; ; i++ { if i >= 10 || i >= len(data) {error}; u |= (data[i]&0x7F) << (7*i);
   if data[i]&0x80 == 0 {return u, data[i+1:]} }.  The shift is on uint64: bits beyond 63 are lost. *)
Fixpoint decode_varint_go (fuel : nat) (shift : Z) (acc : Z) (data : bytes) : res (Z * bytes) :=
  match fuel with
  | O => Err e_generic                         (* i >= 10 *)
  | S f =>
      match data with
      | [] => Err e_generic                    (* i >= len(data) *)
      | b :: r =>
          let acc' := acc + ((b mod 128) * 2 ^ shift) mod two64 in
          if b <? 128 then Ok (acc', r) else decode_varint_go f (shift + 7) acc' r
      end
  end.
Definition decode_varint (data : bytes) : res (Z * bytes) := decode_varint_go 10 0 0 data.

(* ---------- fields ---------- *)
Inductive wire :=
| WVarint (u : Z)      (* wire type 0 *)
| WFixed64 (u : Z)     (* wire type 1 *)
| WBytes (b : bytes)   (* wire type 2 *)
| WFixed32 (u : Z).    (* wire type 5 *)
Definition field := (Z * wire)%type.   (* field number, payload *)

Definition wire_type (w : wire) : Z :=
  match w with WVarint _ => 0 | WFixed64 _ => 1 | WBytes _ => 2 | WFixed32 _ => 5 end.

Fixpoint le_bytes (n : nat) (data : bytes) : Z :=
  match n, data with
  | S n', b :: r => b + 256 * le_bytes n' r
  | _, _ => 0
  end.

(* data[:n] / data[n:] with the run-time bounds check made explicit *)
Definition slice_to (site : Z) (n : Z) (data : bytes) : res bytes :=
  if (0 <=? n) && (n <=? len data) then Ok (firstn (Z.to_nat n) data) else Panic site.
Definition slice_from (site : Z) (n : Z) (data : bytes) : res bytes :=
  if (0 <=? n) && (n <=? len data) then Ok (skipn (Z.to_nat n) data) else Panic site.

(* decodeField *)
Definition decode_field (data : bytes) : res (field * bytes) :=
  '(x, data) <- decode_varint data ;;
  let fld := x / 8 in
  let typ := x mod 8 in
  if typ =? 0 then
    '(u, data) <- decode_varint data ;; Ok ((fld, WVarint u), data)
  else if typ =? 1 then
    if len data <? 8 then Err e_generic
    else h <- slice_to 101 8 data ;; t <- slice_from 102 8 data ;; Ok ((fld, WFixed64 (le_bytes 8 h)), t)
  else if typ =? 2 then
    '(n, data) <- decode_varint data ;;
    if len data <? n then Err e_generic                   (* "too much data" *)
    else h <- slice_to 103 n data ;; t <- slice_from 104 n data ;; Ok ((fld, WBytes h), t)
  else if typ =? 5 then
    if len data <? 4 then Err e_generic
    else h <- slice_to 105 4 data ;; t <- slice_from 106 4 data ;; Ok ((fld, WFixed32 (le_bytes 4 h)), t)
  else Err e_generic.                                    (* unknown wire type *)

(* decodeMessage's loop: decode one field, apply its decoder, repeat while len(data) > 0.
   Every iteration consumes at least one byte; fuel = length data. *)
Fixpoint decode_loop {S} (fuel : nat) (apply : S -> field -> res S) (data : bytes) (s : S) : res S :=
  match data with
  | [] => Ok s
  | _ =>
      match fuel with
      | O => Panic 199                                    (* out of fuel: excluded by theorem *)
      | S f => '(fd, rest) <- decode_field data ;; s' <- apply s fd ;; decode_loop f apply rest s'
      end
  end.
Definition decode_message {S} (apply : S -> field -> res S) (data : bytes) (s : S) : res S :=
  decode_loop (List.length data) apply data s.

(* encoders *)
Definition enc_key (tag typ : Z) : bytes := encode_varint (tag * 8 + typ).
Definition encode_uint64 (tag x : Z) : bytes := enc_key tag 0 ++ encode_varint x.
Definition u64 (x : Z) : Z := x mod two64.               (* uint64(int64) *)
Definition i64 (u : Z) : Z := wrap_i64 u.                 (* int64(uint64) *)
Definition encode_int64 (tag x : Z) : bytes := encode_uint64 tag (u64 x).
Definition encode_length (tag n : Z) : bytes := enc_key tag 2 ++ encode_varint n.
Definition encode_bytes (tag : Z) (b : bytes) : bytes := encode_length tag (len b) ++ b.

(* encodeUint64s: packed when len > 2 (payload, then the length prefix shuffled in front through
   b.tmp: net effect prefix ++ payload), else one varint field per element *)
Definition encode_uint64s (tag : Z) (xs : list Z) : bytes :=
  if 2 <? len xs then encode_bytes tag (flat_map encode_varint xs)
  else flat_map (encode_uint64 tag) xs.
Definition encode_int64s (tag : Z) (xs : list Z) : bytes := encode_uint64s tag (map u64 xs).
Definition encode_uint64_opt (tag x : Z) : bytes := if x =? 0 then [] else encode_uint64 tag x.
Definition encode_int64_opt (tag x : Z) : bytes := if x =? 0 then [] else encode_int64 tag x.
Definition encode_bool_opt (tag : Z) (b : bool) : bytes := if b then encode_uint64 tag 1 else [].
Definition encode_string (tag : Z) (s : string) : bytes := encode_bytes tag (bytes_of_string s).

(* field decoders *)
Definition dec_int64 (w : wire) : res Z := match w with WVarint u => Ok (i64 u) | _ => Err e_generic end.
Definition dec_uint64 (w : wire) : res Z := match w with WVarint u => Ok u | _ => Err e_generic end.
Definition dec_bool (w : wire) : res bool := match w with WVarint u => Ok (negb (i64 u =? 0)) | _ => Err e_generic end.
Definition dec_string (w : wire) : res string := match w with WBytes b => Ok (B b) | _ => Err e_generic end.

Fixpoint decode_varints (fuel : nat) (data : bytes) : res (list Z) :=
  match data with
  | [] => Ok []
  | _ => match fuel with
         | O => Panic 198
         | S f => '(u, rest) <- decode_varint data ;; r <- decode_varints f rest ;; Ok (u :: r)
         end
  end.
(* decodeUint64s / decodeInt64s: packed (wire type 2) or a single varint; any other type = mismatch *)
Definition dec_uint64s (w : wire) (acc : list Z) : res (list Z) :=
  match w with
  | WBytes b => l <- decode_varints (List.length b) b ;; Ok (acc ++ l)
  | WVarint u => Ok (acc ++ [u])
  | _ => Err e_generic
  end.
Definition dec_int64s (w : wire) (acc : list Z) : res (list Z) :=
  match w with
  | WBytes b => l <- decode_varints (List.length b) b ;; Ok (acc ++ map i64 l)
  | WVarint u => Ok (acc ++ [i64 u])
  | _ => Err e_generic
  end.

(* ---------- raw messages (the X fields) ---------- *)
Record rvaluetype := { rvt_type : Z; rvt_unit : Z }.
Record rlabel := { rl_key : Z; rl_str : Z; rl_num : Z; rl_unit : Z }.
Record rsample := { rs_loc : list Z; rs_val : list Z; rs_label : list rlabel }.
Record rmapping := { rm_id : Z; rm_start : Z; rm_limit : Z; rm_offset : Z; rm_file : Z; rm_buildid : Z;
                     rm_hasfn : bool; rm_hasfile : bool; rm_hasline : bool; rm_hasinline : bool }.
Record rline := { rln_fn : Z; rln_line : Z; rln_col : Z }.
Record rlocation := { rloc_id : Z; rloc_mapping : Z; rloc_addr : Z; rloc_lines : list rline; rloc_folded : bool }.
Record rfunction := { rf_id : Z; rf_name : Z; rf_sysname : Z; rf_file : Z; rf_startline : Z }.
Record rprofile := {
  rp_sampletype : list rvaluetype; rp_sample : list rsample; rp_mapping : list rmapping;
  rp_location : list rlocation; rp_function : list rfunction; rp_strings : list string;
  rp_dropframes : Z; rp_keepframes : Z; rp_time : Z; rp_duration : Z;
  rp_periodtype : option rvaluetype; rp_period : Z; rp_comment : list Z; rp_defaultst : Z; rp_docurl : Z }.

Definition rvt0 := {| rvt_type := 0; rvt_unit := 0 |}.
Definition rlabel0 := {| rl_key := 0; rl_str := 0; rl_num := 0; rl_unit := 0 |}.
Definition rsample0 := {| rs_loc := []; rs_val := []; rs_label := [] |}.
Definition rmapping0 := {| rm_id := 0; rm_start := 0; rm_limit := 0; rm_offset := 0; rm_file := 0; rm_buildid := 0;
                           rm_hasfn := false; rm_hasfile := false; rm_hasline := false; rm_hasinline := false |}.
Definition rline0 := {| rln_fn := 0; rln_line := 0; rln_col := 0 |}.
Definition rlocation0 := {| rloc_id := 0; rloc_mapping := 0; rloc_addr := 0; rloc_lines := []; rloc_folded := false |}.
Definition rfunction0 := {| rf_id := 0; rf_name := 0; rf_sysname := 0; rf_file := 0; rf_startline := 0 |}.
Definition rprofile0 := {| rp_sampletype := []; rp_sample := []; rp_mapping := []; rp_location := []; rp_function := [];
  rp_strings := []; rp_dropframes := 0; rp_keepframes := 0; rp_time := 0; rp_duration := 0; rp_periodtype := None;
  rp_period := 0; rp_comment := []; rp_defaultst := 0; rp_docurl := 0 |}.

(* ---------- per-message encoders (field order of the encode methods) ---------- *)
Definition enc_valuetype (v : rvaluetype) : bytes :=
  encode_int64_opt 1 (rvt_type v) ++ encode_int64_opt 2 (rvt_unit v).
Definition enc_label (l : rlabel) : bytes :=
  encode_int64_opt 1 (rl_key l) ++ encode_int64_opt 2 (rl_str l) ++ encode_int64_opt 3 (rl_num l) ++ encode_int64_opt 4 (rl_unit l).
Definition enc_sample (s : rsample) : bytes :=
  encode_uint64s 1 (rs_loc s) ++ encode_int64s 2 (rs_val s) ++ flat_map (fun l => encode_bytes 3 (enc_label l)) (rs_label s).
Definition enc_mapping (m : rmapping) : bytes :=
  encode_uint64_opt 1 (rm_id m) ++ encode_uint64_opt 2 (rm_start m) ++ encode_uint64_opt 3 (rm_limit m) ++
  encode_uint64_opt 4 (rm_offset m) ++ encode_int64_opt 5 (rm_file m) ++ encode_int64_opt 6 (rm_buildid m) ++
  encode_bool_opt 7 (rm_hasfn m) ++ encode_bool_opt 8 (rm_hasfile m) ++ encode_bool_opt 9 (rm_hasline m) ++
  encode_bool_opt 10 (rm_hasinline m).
Definition enc_line (l : rline) : bytes :=
  encode_uint64_opt 1 (rln_fn l) ++ encode_int64_opt 2 (rln_line l) ++ encode_int64_opt 3 (rln_col l).
Definition enc_location (l : rlocation) : bytes :=
  encode_uint64_opt 1 (rloc_id l) ++ encode_uint64_opt 2 (rloc_mapping l) ++ encode_uint64_opt 3 (rloc_addr l) ++
  flat_map (fun x => encode_bytes 4 (enc_line x)) (rloc_lines l) ++ encode_bool_opt 5 (rloc_folded l).
Definition enc_function (f : rfunction) : bytes :=
  encode_uint64_opt 1 (rf_id f) ++ encode_int64_opt 2 (rf_name f) ++ encode_int64_opt 3 (rf_sysname f) ++
  encode_int64_opt 4 (rf_file f) ++ encode_int64_opt 5 (rf_startline f).
Definition enc_profile (p : rprofile) : bytes :=
  flat_map (fun x => encode_bytes 1 (enc_valuetype x)) (rp_sampletype p) ++
  flat_map (fun x => encode_bytes 2 (enc_sample x)) (rp_sample p) ++
  flat_map (fun x => encode_bytes 3 (enc_mapping x)) (rp_mapping p) ++
  flat_map (fun x => encode_bytes 4 (enc_location x)) (rp_location p) ++
  flat_map (fun x => encode_bytes 5 (enc_function x)) (rp_function p) ++
  flat_map (encode_string 6) (rp_strings p) ++
  encode_int64_opt 7 (rp_dropframes p) ++ encode_int64_opt 8 (rp_keepframes p) ++
  encode_int64_opt 9 (rp_time p) ++ encode_int64_opt 10 (rp_duration p) ++
  (match rp_periodtype p with
   | Some pt => if (rvt_type pt =? 0) && (rvt_unit pt =? 0) then [] else encode_bytes 11 (enc_valuetype pt)
   | None => [] end) ++
  encode_int64_opt 12 (rp_period p) ++ encode_int64s 13 (rp_comment p) ++
  encode_int64 14 (rp_defaultst p) ++ encode_int64_opt 15 (rp_docurl p).

(* ---------- per-message decoders (the decoder tables; unknown fields are skipped) ---------- *)
Definition sub_message {S} (apply : S -> field -> res S) (w : wire) (s0 : S) : res S :=
  match w with WBytes b => decode_message apply b s0 | _ => Err e_generic end.   (* checkType(b, 2) *)

Definition app_valuetype (v : rvaluetype) (fd : field) : res rvaluetype :=
  let '(t, w) := fd in
  if t =? 1 then x <- dec_int64 w ;; Ok {| rvt_type := x; rvt_unit := rvt_unit v |}
  else if t =? 2 then x <- dec_int64 w ;; Ok {| rvt_type := rvt_type v; rvt_unit := x |}
  else Ok v.
Definition app_label (l : rlabel) (fd : field) : res rlabel :=
  let '(t, w) := fd in
  if t =? 1 then x <- dec_int64 w ;; Ok {| rl_key := x; rl_str := rl_str l; rl_num := rl_num l; rl_unit := rl_unit l |}
  else if t =? 2 then x <- dec_int64 w ;; Ok {| rl_key := rl_key l; rl_str := x; rl_num := rl_num l; rl_unit := rl_unit l |}
  else if t =? 3 then x <- dec_int64 w ;; Ok {| rl_key := rl_key l; rl_str := rl_str l; rl_num := x; rl_unit := rl_unit l |}
  else if t =? 4 then x <- dec_int64 w ;; Ok {| rl_key := rl_key l; rl_str := rl_str l; rl_num := rl_num l; rl_unit := x |}
  else Ok l.
Definition app_sample (s : rsample) (fd : field) : res rsample :=
  let '(t, w) := fd in
  if t =? 1 then x <- dec_uint64s w (rs_loc s) ;; Ok {| rs_loc := x; rs_val := rs_val s; rs_label := rs_label s |}
  else if t =? 2 then x <- dec_int64s w (rs_val s) ;; Ok {| rs_loc := rs_loc s; rs_val := x; rs_label := rs_label s |}
  else if t =? 3 then x <- sub_message app_label w rlabel0 ;; Ok {| rs_loc := rs_loc s; rs_val := rs_val s; rs_label := rs_label s ++ [x] |}
  else Ok s.
Definition app_mapping (m : rmapping) (fd : field) : res rmapping :=
  let '(t, w) := fd in
  let upd a b c d e f g h i j := {| rm_id := a; rm_start := b; rm_limit := c; rm_offset := d; rm_file := e; rm_buildid := f;
                                    rm_hasfn := g; rm_hasfile := h; rm_hasline := i; rm_hasinline := j |} in
  let '(a, b, c, d, e, f, g, h, i, j) := (rm_id m, rm_start m, rm_limit m, rm_offset m, rm_file m, rm_buildid m,
                                          rm_hasfn m, rm_hasfile m, rm_hasline m, rm_hasinline m) in
  if t =? 1 then x <- dec_uint64 w ;; Ok (upd x b c d e f g h i j)
  else if t =? 2 then x <- dec_uint64 w ;; Ok (upd a x c d e f g h i j)
  else if t =? 3 then x <- dec_uint64 w ;; Ok (upd a b x d e f g h i j)
  else if t =? 4 then x <- dec_uint64 w ;; Ok (upd a b c x e f g h i j)
  else if t =? 5 then x <- dec_int64 w ;; Ok (upd a b c d x f g h i j)
  else if t =? 6 then x <- dec_int64 w ;; Ok (upd a b c d e x g h i j)
  else if t =? 7 then x <- dec_bool w ;; Ok (upd a b c d e f x h i j)
  else if t =? 8 then x <- dec_bool w ;; Ok (upd a b c d e f g x i j)
  else if t =? 9 then x <- dec_bool w ;; Ok (upd a b c d e f g h x j)
  else if t =? 10 then x <- dec_bool w ;; Ok (upd a b c d e f g h i x)
  else Ok m.
Definition app_line (l : rline) (fd : field) : res rline :=
  let '(t, w) := fd in
  if t =? 1 then x <- dec_uint64 w ;; Ok {| rln_fn := x; rln_line := rln_line l; rln_col := rln_col l |}
  else if t =? 2 then x <- dec_int64 w ;; Ok {| rln_fn := rln_fn l; rln_line := x; rln_col := rln_col l |}
  else if t =? 3 then x <- dec_int64 w ;; Ok {| rln_fn := rln_fn l; rln_line := rln_line l; rln_col := x |}
  else Ok l.
Definition app_location (l : rlocation) (fd : field) : res rlocation :=
  let '(t, w) := fd in
  let upd a b c d e := {| rloc_id := a; rloc_mapping := b; rloc_addr := c; rloc_lines := d; rloc_folded := e |} in
  let '(a, b, c, d, e) := (rloc_id l, rloc_mapping l, rloc_addr l, rloc_lines l, rloc_folded l) in
  if t =? 1 then x <- dec_uint64 w ;; Ok (upd x b c d e)
  else if t =? 2 then x <- dec_uint64 w ;; Ok (upd a x c d e)
  else if t =? 3 then x <- dec_uint64 w ;; Ok (upd a b x d e)
  else if t =? 4 then x <- sub_message app_line w rline0 ;; Ok (upd a b c (d ++ [x]) e)
  else if t =? 5 then x <- dec_bool w ;; Ok (upd a b c d x)
  else Ok l.
Definition app_function (f : rfunction) (fd : field) : res rfunction :=
  let '(t, w) := fd in
  let upd a b c d e := {| rf_id := a; rf_name := b; rf_sysname := c; rf_file := d; rf_startline := e |} in
  let '(a, b, c, d, e) := (rf_id f, rf_name f, rf_sysname f, rf_file f, rf_startline f) in
  if t =? 1 then x <- dec_uint64 w ;; Ok (upd x b c d e)
  else if t =? 2 then x <- dec_int64 w ;; Ok (upd a x c d e)
  else if t =? 3 then x <- dec_int64 w ;; Ok (upd a b x d e)
  else if t =? 4 then x <- dec_int64 w ;; Ok (upd a b c x e)
  else if t =? 5 then x <- dec_int64 w ;; Ok (upd a b c d x)
  else Ok f.

Definition rp_upd (p : rprofile) a b c d e f g h i j k l m n o : rprofile :=
  {| rp_sampletype := a; rp_sample := b; rp_mapping := c; rp_location := d; rp_function := e; rp_strings := f;
     rp_dropframes := g; rp_keepframes := h; rp_time := i; rp_duration := j; rp_periodtype := k; rp_period := l;
     rp_comment := m; rp_defaultst := n; rp_docurl := o |}.

(* profileDecoder.  The sub-message is appended to the list BEFORE it is decoded, so a decoding error
   leaves it there -- irrelevant, the error aborts the parse. *)
Definition app_profile (p : rprofile) (fd : field) : res rprofile :=
  let '(t, w) := fd in
  let '(a, b, c, d, e, f, g, h) := (rp_sampletype p, rp_sample p, rp_mapping p, rp_location p, rp_function p,
                                    rp_strings p, rp_dropframes p, rp_keepframes p) in
  let '(i, j, k, l, m, n, o) := (rp_time p, rp_duration p, rp_periodtype p, rp_period p, rp_comment p,
                                 rp_defaultst p, rp_docurl p) in
  if t =? 1 then x <- sub_message app_valuetype w rvt0 ;; Ok (rp_upd p (a ++ [x]) b c d e f g h i j k l m n o)
  else if t =? 2 then x <- sub_message app_sample w rsample0 ;; Ok (rp_upd p a (b ++ [x]) c d e f g h i j k l m n o)
  else if t =? 3 then x <- sub_message app_mapping w rmapping0 ;; Ok (rp_upd p a b (c ++ [x]) d e f g h i j k l m n o)
  else if t =? 4 then x <- sub_message app_location w rlocation0 ;; Ok (rp_upd p a b c (d ++ [x]) e f g h i j k l m n o)
  else if t =? 5 then x <- sub_message app_function w rfunction0 ;; Ok (rp_upd p a b c d (e ++ [x]) f g h i j k l m n o)
  else if t =? 6 then
    x <- dec_string w ;;
    let f' := f ++ [x] in
    match f' with
    | [] => Panic 107                                  (* stringTable[0] right after an append *)
    | s0 :: _ => if String.eqb s0 "" then Ok (rp_upd p a b c d e f' g h i j k l m n o) else Err e_generic
    end
  else if t =? 7 then x <- dec_int64 w ;; Ok (rp_upd p a b c d e f x h i j k l m n o)
  else if t =? 8 then x <- dec_int64 w ;; Ok (rp_upd p a b c d e f g x i j k l m n o)
  else if t =? 9 then if negb (i =? 0) then Err e_concat else x <- dec_int64 w ;; Ok (rp_upd p a b c d e f g h x j k l m n o)
  else if t =? 10 then x <- dec_int64 w ;; Ok (rp_upd p a b c d e f g h i x k l m n o)
  else if t =? 11 then x <- sub_message app_valuetype w rvt0 ;; Ok (rp_upd p a b c d e f g h i j (Some x) l m n o)
  else if t =? 12 then x <- dec_int64 w ;; Ok (rp_upd p a b c d e f g h i j k x m n o)
  else if t =? 13 then x <- dec_int64s w m ;; Ok (rp_upd p a b c d e f g h i j k l x n o)
  else if t =? 14 then x <- dec_int64 w ;; Ok (rp_upd p a b c d e f g h i j k l m x o)
  else if t =? 15 then x <- dec_int64 w ;; Ok (rp_upd p a b c d e f g h i j k l m n x)
  else Ok p.

Definition unmarshal (data : bytes) : res rprofile := decode_message app_profile data rprofile0.

(* ================= preEncode ================= *)
(* addString: index of s in the table, appended when new (first-use order) *)
Fixpoint index_of (s : string) (tab : list string) (i : Z) : option Z :=
  match tab with
  | [] => None
  | x :: r => if String.eqb x s then Some i else index_of s r (i + 1)
  end.
Definition add_string (tab : list string) (s : string) : list string * Z :=
  match index_of s tab 0 with
  | Some i => (tab, i)
  | None => (tab ++ [s], len tab)
  end.

Definition assoc {V} (k : string) (l : list (string * V)) : option V :=
  match find (fun e => String.eqb (fst e) k) l with Some e => Some (snd e) | None => None end.

Definition pre_valuetype (tab : list string) (v : valuetype) : list string * rvaluetype :=
  let '(tab, t) := add_string tab (vt_type v) in
  let '(tab, u) := add_string tab (vt_unit v) in
  (tab, {| rvt_type := t; rvt_unit := u |}).

(* string labels of one key: one label per value *)
Fixpoint pre_strlabels (tab : list string) (k : string) (vs : list string) : list string * list rlabel :=
  match vs with
  | [] => (tab, [])
  | v :: r =>
      let '(tab, kx) := add_string tab k in
      let '(tab, sx) := add_string tab v in
      let '(tab, rest) := pre_strlabels tab k r in
      (tab, {| rl_key := kx; rl_str := sx; rl_num := 0; rl_unit := 0 |} :: rest)
  end.

(* numeric labels of one key: units[i] is indexed whenever the unit list is non-empty -- a Go
   index-out-of-range panic when 0 < len units < len values *)
Fixpoint pre_numlabels (tab : list string) (kx : Z) (vs : list Z) (units : list string) (i : nat)
  : res (list string * list rlabel) :=
  match vs with
  | [] => Ok (tab, [])
  | v :: r =>
      '(tab, ux) <- (match units with
                        | [] => Ok (tab, 0)
                        | _ => match nth_error units i with
                               | Some u => Ok (add_string tab u)
                               | None => Panic 201
                               end
                        end) ;;
      '(tab, rest) <- pre_numlabels tab kx r units (S i) ;;
      Ok (tab, {| rl_key := kx; rl_str := 0; rl_num := v; rl_unit := ux |} :: rest)
  end.

Fixpoint pre_strkeys (tab : list string) (l : list (string * list string)) : list string * list rlabel :=
  match l with
  | [] => (tab, [])
  | (k, vs) :: r =>
      let '(tab, a) := pre_strlabels tab k vs in
      let '(tab, b) := pre_strkeys tab r in (tab, a ++ b)
  end.

Fixpoint pre_numkeys (tab : list string) (l : list (string * list Z)) (units : list (string * list string))
  : res (list string * list rlabel) :=
  match l with
  | [] => Ok (tab, [])
  | (k, vs) :: r =>
      let '(tab, kx) := add_string tab k in
      let us := match assoc k units with Some u => u | None => [] end in
      '(tab, a) <- pre_numlabels tab kx vs us 0 ;;
      '(tab, b) <- pre_numkeys tab r units ;;
      Ok (tab, a ++ b)
  end.

Definition pre_sample (tab : list string) (s : sample) : res (list string * rsample) :=
  let '(tab, a) := pre_strkeys tab (s_label s) in
  '(tab, b) <- pre_numkeys tab (s_numlabel s) (s_numunit s) ;;
  (* s.locationIDX[i] = loc.ID dereferences the pointer: a nil location (dumped as id -1) panics *)
  if existsb (Z.eqb (-1)) (s_loc s) then Panic 204
  else Ok (tab, {| rs_loc := s_loc s; rs_val := s_val s; rs_label := a ++ b |}).

Fixpoint pre_samples (tab : list string) (l : list sample) : res (list string * list rsample) :=
  match l with
  | [] => Ok (tab, [])
  | s :: r => '(tab, x) <- pre_sample tab s ;; '(tab, xs) <- pre_samples tab r ;; Ok (tab, x :: xs)
  end.

Fixpoint pre_list {A B} (f : list string -> A -> list string * B) (tab : list string) (l : list A)
  : list string * list B :=
  match l with
  | [] => (tab, [])
  | a :: r => let '(tab, x) := f tab a in let '(tab, xs) := pre_list f tab r in (tab, x :: xs)
  end.

Definition pre_mapping (tab : list string) (m : mapping) : list string * rmapping :=
  let '(tab, f) := add_string tab (m_file m) in
  let '(tab, b) := add_string tab (m_buildid m) in
  (tab, {| rm_id := m_id m; rm_start := m_start m; rm_limit := m_limit m; rm_offset := m_offset m;
           rm_file := f; rm_buildid := b; rm_hasfn := m_hasfn m; rm_hasfile := m_hasfile m;
           rm_hasline := m_hasline m; rm_hasinline := m_hasinline m |}).

Definition pre_location (l : location) : rlocation :=
  {| rloc_id := l_id l; rloc_mapping := l_mapping l; rloc_addr := l_addr l;
     rloc_lines := map (fun x => {| rln_fn := ln_fn x; rln_line := ln_line x; rln_col := ln_col x |}) (l_lines l);
     rloc_folded := l_folded l |}.

Definition pre_function (tab : list string) (f : function) : list string * rfunction :=
  let '(tab, n) := add_string tab (f_name f) in
  let '(tab, s) := add_string tab (f_sysname f) in
  let '(tab, fl) := add_string tab (f_file f) in
  (tab, {| rf_id := f_id f; rf_name := n; rf_sysname := s; rf_file := fl; rf_startline := f_startline f |}).

Definition pre_encode (p : profile) : res rprofile :=
  let tab := [""%string] in
  let '(tab, sts) := pre_list pre_valuetype tab (p_sampletype p) in
  '(tab, ss) <- pre_samples tab (p_sample p) ;;
  let '(tab, ms) := pre_list pre_mapping tab (p_mapping p) in
  let ls := map pre_location (p_location p) in
  let '(tab, fs) := pre_list pre_function tab (p_function p) in
  let '(tab, df) := add_string tab (p_dropframes p) in
  let '(tab, kf) := add_string tab (p_keepframes p) in
  let '(tab, pt) := match p_periodtype p with
                    | Some v => let '(tab, x) := pre_valuetype tab v in (tab, Some x)
                    | None => (tab, None) end in
  let '(tab, cs) := pre_list add_string tab (p_comments p) in
  let '(tab, dst) := add_string tab (p_defaultsampletype p) in
  let '(tab, du) := add_string tab (p_docurl p) in
  Ok {| rp_sampletype := sts; rp_sample := ss; rp_mapping := ms; rp_location := ls; rp_function := fs;
        rp_strings := tab; rp_dropframes := df; rp_keepframes := kf; rp_time := p_timenanos p;
        rp_duration := p_durationnanos p; rp_periodtype := pt; rp_period := p_period p; rp_comment := cs;
        rp_defaultst := dst; rp_docurl := du |}.

Definition serialize (p : profile) : res bytes := r <- pre_encode p ;; Ok (enc_profile r).

(* ================= postDecode ================= *)
(* getString: range check on int(x); errMalformed outside *)
Definition get_string (tab : list string) (x : Z) : res string :=
  if (x <? 0) || (len tab <=? x) then Err e_malformed
  else match nth_error tab (Z.to_nat x) with Some s => Ok s | None => Panic 202 end.

(* id tables: dense slice or map, later definitions overwrite earlier ones; absent = nil (0) *)
Definition defined_id (ids : list Z) (id : Z) : Z := if existsb (Z.eqb id) ids then id else 0.

Definition pad_string_array (arr : list string) (l : nat) : list string :=
  arr ++ repeat ""%string (l - List.length arr).

(* association lists kept sorted by key (= the harness's canonical dump of a Go map) *)
Fixpoint assoc_update {V} (k : string) (f : option V -> V) (l : list (string * V)) : list (string * V) :=
  match l with
  | [] => [(k, f None)]
  | (k', v) :: r =>
      if String.eqb k k' then (k', f (Some v)) :: r
      else if str_ltb k k' then (k, f None) :: l
      else (k', v) :: assoc_update k f r
  end.

Definition odef {V} (d : V) (o : option V) : V := match o with Some v => v | None => d end.

Record regroup := { g_label : list (string * list string); g_num : list (string * list Z);
                    g_unit : list (string * list string) }.

Definition post_label (tab : list string) (g : regroup) (l : rlabel) : res regroup :=
  key <- get_string tab (rl_key l) ;;
  if negb (rl_str l =? 0) then
    value <- get_string tab (rl_str l) ;;
    Ok {| g_label := assoc_update key (fun o => odef [] o ++ [value]) (g_label g); g_num := g_num g; g_unit := g_unit g |}
  else if negb (rl_num l =? 0) || negb (rl_unit l =? 0) then
    let numvalues := odef [] (assoc key (g_num g)) in
    gu <- (if negb (rl_unit l =? 0) then
                unit <- get_string tab (rl_unit l) ;;
                Ok (assoc_update key (fun o => pad_string_array (odef [] o) (List.length numvalues) ++ [unit]) (g_unit g))
              else Ok (g_unit g)) ;;
    Ok {| g_label := g_label g; g_num := assoc_update key (fun o => odef [] o ++ [rl_num l]) (g_num g); g_unit := gu |}
  else Ok g.

Definition post_sample (tab : list string) (locids : list Z) (s : rsample) : res sample :=
  g <- fold_res (post_label tab) (rs_label s) {| g_label := []; g_num := []; g_unit := [] |} ;;
  let units := match g_num g with
               | [] => []
               | _ => map (fun e => (fst e, match snd e with
                                            | [] => []
                                            | u => pad_string_array u (List.length (odef [] (assoc (fst e) (g_num g))))
                                            end)) (g_unit g)
               end in
  Ok {| s_loc := map (fun id => if existsb (Z.eqb id) locids then id else -1) (rs_loc s); s_val := rs_val s; s_label := g_label g;
        s_numlabel := g_num g; s_numunit := units |}.

Definition post_mapping (tab : list string) (m : rmapping) : res mapping :=
  f <- get_string tab (rm_file m) ;;
  b <- get_string tab (rm_buildid m) ;;
  Ok {| m_id := rm_id m; m_start := rm_start m; m_limit := rm_limit m; m_offset := rm_offset m; m_file := f;
        m_buildid := b; m_hasfn := rm_hasfn m; m_hasfile := rm_hasfile m; m_hasline := rm_hasline m;
        m_hasinline := rm_hasinline m |}.

Definition post_function (tab : list string) (f : rfunction) : res function :=
  n <- get_string tab (rf_name f) ;;
  s <- get_string tab (rf_sysname f) ;;
  fl <- get_string tab (rf_file f) ;;
  Ok {| f_id := rf_id f; f_name := n; f_sysname := s; f_file := fl; f_startline := rf_startline f |}.

Definition post_location (mapids fnids : list Z) (l : rlocation) : location :=
  {| l_id := rloc_id l; l_mapping := defined_id mapids (rloc_mapping l); l_addr := rloc_addr l;
     l_lines := map (fun x => {| ln_fn := (if rln_fn x =? 0 then 0 else defined_id fnids (rln_fn x));
                                 ln_line := rln_line x; ln_col := rln_col x |}) (rloc_lines l);
     l_folded := rloc_folded l |}.

Definition post_valuetype (tab : list string) (v : rvaluetype) : res valuetype :=
  t <- get_string tab (rvt_type v) ;; u <- get_string tab (rvt_unit v) ;; Ok {| vt_type := t; vt_unit := u |}.

Fixpoint map_res {A B} (f : A -> res B) (l : list A) : res (list B) :=
  match l with
  | [] => Ok []
  | a :: r => x <- f a ;; xs <- map_res f r ;; Ok (x :: xs)
  end.

Definition post_decode (r : rprofile) : res profile :=
  let tab := rp_strings r in
  ms <- map_res (post_mapping tab) (rp_mapping r) ;;
  fs <- map_res (post_function tab) (rp_function r) ;;
  let mapids := map rm_id (rp_mapping r) in
  let fnids := map rf_id (rp_function r) in
  let ls := map (post_location mapids fnids) (rp_location r) in
  let locids := map rloc_id (rp_location r) in
  sts <- map_res (post_valuetype tab) (rp_sampletype r) ;;
  ss <- map_res (post_sample tab locids) (rp_sample r) ;;
  df <- get_string tab (rp_dropframes r) ;;
  kf <- get_string tab (rp_keepframes r) ;;
  pt <- post_valuetype tab (match rp_periodtype r with Some v => v | None => rvt0 end) ;;
  cs <- map_res (get_string tab) (rp_comment r) ;;
  dst <- get_string tab (rp_defaultst r) ;;
  du <- get_string tab (rp_docurl r) ;;
  Ok {| p_sampletype := sts; p_defaultsampletype := dst; p_sample := ss; p_mapping := ms; p_location := ls;
        p_function := fs; p_comments := cs; p_docurl := du; p_dropframes := df; p_keepframes := kf;
        p_timenanos := rp_time r; p_durationnanos := rp_duration r; p_periodtype := Some pt; p_period := rp_period r |}.

(* ParseUncompressed *)
Definition parse_uncompressed (data : bytes) : res profile :=
  match data with
  | [] => Err e_nodata
  | _ => r <- unmarshal data ;; post_decode r
  end.

(* Copy = ParseUncompressed(serialize(p)), panicking on error (profile.go:859) *)
Definition copy (p : profile) : res profile :=
  b <- serialize p ;;
  match parse_uncompressed b with
  | Ok q => Ok q
  | Err _ => Panic 203
  | Panic s => Panic s
  end.
