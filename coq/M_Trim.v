(* C18 end-to-end layer: model of the trimming primitive the report pipeline uses for call trees
   (internal/graph/graph.go TrimTree), on the parent map of a forest.  report.newTrimmedGraph runs
   it once for the nodefraction cut-off and once for nodecount; ComposeDot then prints every Out
   edge of every listed node.  No proofs in this file. *)
From PV Require Export Base.Term.
Open Scope Z_scope.

(* (node id, parent id); ids are positive, parent 0 = root *)
Definition pmap := list (Z * Z).

Definition zmem (x : Z) (l : list Z) : bool := existsb (Z.eqb x) l.
Definition dom (pm : pmap) : list Z := map fst pm.

Definition parent_of (pm : pmap) (n : Z) : Z :=
  match find (fun e => fst e =? n) pm with Some e => snd e | None => 0 end.

(* one non-kept node is taken out: its children are re-attached to its parent (or become roots) *)
Definition splice (pm : pmap) (cur : Z) : pmap :=
  let p := parent_of pm cur in
  map (fun e => (fst e, if snd e =? cur then p else snd e)) (filter (fun e => negb (fst e =? cur)) pm).

Definition trim_step (kept : list Z) (pm : pmap) (cur : Z) : pmap :=
  if zmem cur kept then pm else splice pm cur.

(* TrimTree visits the nodes LISTED in g.Nodes, in that order *)
Definition trim_tree (kept listed : list Z) (pm : pmap) : pmap := fold_left (trim_step kept) listed pm.

(* g.Nodes afterwards, and the Out edges ComposeDot will print *)
Definition trim_nodes (kept listed : list Z) : list Z := filter (fun n => zmem n kept) listed.
Definition out_of (pm : pmap) (n : Z) : list Z := map fst (filter (fun e => snd e =? n) pm).

(* every edge printed for a listed node leads to a listed node *)
Definition edges_closed (nodes : list Z) (pm : pmap) : bool :=
  forallb (fun n => forallb (fun c => zmem c nodes) (out_of pm n)) nodes.
