(* Abstract documents of the legacy formats, their printers, and the documented conversion
   [convert_*] (what the property says the parse result must be), plus the decoders of the case
   format.  Numbers are kept as the numerals that are printed (decimal / lower-case hex strings).
   No proofs here. *)
From PV Require Export M_Legacy.
Open Scope Z_scope.

Definition nl : string := String (ascii_of_N 10) "".
Fixpoint join_lines (ls : list string) : string :=
  match ls with [] => "" | l :: r => l ++ nl ++ join_lines r end.

(* ---------------- memory-map section ---------------- *)
Record dmap := { dm_kind : Z; dm_start : string; dm_limit : string; dm_perm : string; dm_offset : string;
                 dm_dev : string; dm_inode : string; dm_file : string; dm_buildid : string }.
Record mapsec := { ms_present : bool; ms_sentinel : Z; ms_entries : list dmap }.

Definition print_dmap (e : dmap) : string :=
  if dm_kind e =? 0 then      (* /proc/<pid>/maps *)
    dm_start e ++ "-" ++ dm_limit e ++ " " ++ dm_perm e ++ " " ++ dm_offset e ++ " " ++ dm_dev e ++ " " ++ dm_inode e
      ++ (if nonempty (dm_file e) then " " ++ dm_file e else "")
  else if dm_kind e =? 1 then (* brief form recommended in legacy_profile.go *)
    "0x" ++ dm_start e ++ "-0x" ++ dm_limit e ++ " " ++ dm_file e
      ++ (if nonempty (dm_offset e) then " (@" ++ dm_offset e ++ ")" else "")
      ++ (if nonempty (dm_buildid e) then " " ++ dm_buildid e else "")
  else                        (* gperftools text dumps *)
    "  " ++ dm_start e ++ "-" ++ dm_limit e ++ ": " ++ dm_file e.

Definition sentinel_line (k : Z) : string := if k =? 0 then "--- Memory map: ---" else "MAPPED_LIBRARIES:".
Definition print_mapsec (m : mapsec) : list string :=
  if ms_present m then sentinel_line (ms_sentinel m) :: map print_dmap (ms_entries m) else [].

Definition mk_mapping (st lim off : Z) (file bid : string) : mapping :=
  {| m_id := 0; m_start := st; m_limit := lim; m_offset := off; m_file := file; m_buildid := bid;
     m_hasfn := false; m_hasfile := false; m_hasline := false; m_hasinline := false |}.

(* the mapping an entry denotes: executable entries only *)
Definition dmap_mapping (e : dmap) : list mapping :=
  if dm_kind e =? 0 then
    if contains_char "x" (dm_perm e)
    then [mk_mapping (hex_val (dm_start e)) (hex_val (dm_limit e)) (hex_val (dm_offset e)) (dm_file e) ""] else []
  else if dm_kind e =? 1 then
    [mk_mapping (hex_val (dm_start e)) (hex_val (dm_limit e)) (hex_val (dm_offset e)) (dm_file e) (dm_buildid e)]
  else [mk_mapping (hex_val (dm_start e)) (hex_val (dm_limit e)) 0 (dm_file e) ""].
Definition mapsec_mappings (m : mapsec) : list mapping :=
  if ms_present m then flat_map dmap_mapping (ms_entries m) else [].

Definition hexes (l : list string) : string := String.concat "" (map (fun h => " 0x" ++ h) l).
Definition addr_of (h : string) : Z := hex_val h.

(* ---------------- Go count ---------------- *)
Inductive citem := CRec (count : string) (addrs : list string) | CSkip (line : string).
Record cdoc := { cd_pre : list string; cd_type : string; cd_total : string; cd_items : list citem; cd_map : mapsec }.

Definition print_citem (i : citem) : string :=
  match i with CRec c a => c ++ " @" ++ hexes a | CSkip l => l end.
Definition count_header (d : cdoc) : string := cd_type d ++ " profile: total " ++ cd_total d.
Definition print_count (d : cdoc) : string :=
  join_lines (cd_pre d ++ [count_header d] ++ map print_citem (cd_items d)
              ++ print_mapsec (cd_map d))%list.

Definition count_samples (items : list citem) : list rsample :=
  flat_map (fun i => match i with
                     | CRec c a => [{| rs_addrs := map (fun h => dec1 (addr_of h)) a; rs_vals := [dec_val c]; rs_bytes := None |}]
                     | CSkip _ => []
                     end) items.
Definition convert_count (d : cdoc) : profile :=
  finalize false {| pr_st := [mk_vt (cd_type d) "count"]; pr_pt := mk_vt (cd_type d) "count"; pr_period := 1;
                    pr_duration := 0; pr_samples := count_samples (cd_items d) |} (mapsec_mappings (cd_map d)).

(* ---------------- heap / growth / fragmentation ---------------- *)
Inductive hitem := HRec (c s ac asz : string) (addrs : list string) | HSkip (line : string).
Record hdoc := { hd_name : string; hd_h1 : string; hd_h2 : string; hd_h3 : string; hd_h4 : string; hd_rate : string;
                 hd_items : list hitem; hd_map : mapsec; hd_lead : string }.

Definition print_hitem (lead : string) (i : hitem) : string :=
  match i with
  | HRec c s ac asz a => lead ++ c ++ ": " ++ s ++ " [" ++ ac ++ ": " ++ asz ++ "] @" ++ hexes a
  | HSkip l => l
  end.
Definition heap_header_line (d : hdoc) : string :=
  "heap profile: " ++ hd_h1 d ++ ": " ++ hd_h2 d ++ " [" ++ hd_h3 d ++ ": " ++ hd_h4 d ++ "] @ " ++ hd_name d
    ++ (if nonempty (hd_rate d) then "/" ++ hd_rate d else "").
Definition print_heap (d : hdoc) : string :=
  join_lines ([heap_header_line d] ++ map (print_hitem (hd_lead d)) (hd_items d) ++ print_mapsec (hd_map d))%list.

(* signed decimal numeral *)
Definition sdec_val (s : string) : Z := if has_prefix "-" s then - dec_val (drop 1 s) else dec_val s.

Definition hd_is_heap (d : hdoc) : bool := has_prefix "heap" (hd_name d).
Definition hd_v2 (d : hdoc) : bool :=
  String.eqb (hd_name d) "heap" || String.eqb (hd_name d) "heap_v2" || String.eqb (hd_name d) "heapz_v2".
Definition hd_period (d : hdoc) : Z :=
  if String.eqb (hd_name d) "heap" then Z.quot (dec_val (hd_rate d)) 2
  else if hd_v2 d then dec_val (hd_rate d) else 1.
Definition hd_has_alloc (d : hdoc) : bool :=
  hd_is_heap d &&
  ((negb (String.eqb (hd_h3 d) (hd_h1 d)) && negb (String.eqb (hd_h3 d) "0"))
   || (negb (String.eqb (hd_h4 d) (hd_h2 d)) && negb (String.eqb (hd_h4 d) "0"))).

Section DocExp.
  Variable unsample : Z -> Z -> Z -> Z * Z.

  (* the documented value pair: raw, or unsampled when the format is a v2 heap profile *)
  Definition heap_pair (d : hdoc) (c s : Z) : list Z :=
    if c =? 0 then [c; s]
    else if hd_v2 d then let '(c', s') := scale_heap_sample unsample c s (hd_period d) in [c'; s'] else [c; s].
  Definition heap_blocksize (d : hdoc) (c s ac asz : Z) : Z :=
    if negb (c =? 0) then Z.quot s c
    else if hd_has_alloc d && negb (ac =? 0) then Z.quot asz ac else 0.
  Definition heap_samples (d : hdoc) : list rsample :=
    flat_map (fun i => match i with
                       | HRec c s ac asz a =>
                           [{| rs_addrs := map (fun h => dec1 (addr_of h)) a;
                               rs_vals := ((if hd_has_alloc d then heap_pair d (dec_val ac) (dec_val asz) else [])
                                           ++ heap_pair d (sdec_val c) (sdec_val s))%list;
                               rs_bytes := Some (heap_blocksize d (sdec_val c) (sdec_val s) (dec_val ac) (dec_val asz)) |}]
                       | HSkip _ => []
                       end) (hd_items d).
  Definition convert_heap (d : hdoc) : profile :=
    finalize false {| pr_st := heap_sample_types (hd_has_alloc d); pr_pt := mk_vt "space" "bytes"; pr_period := hd_period d;
                      pr_duration := 0; pr_samples := heap_samples d |} (mapsec_mappings (hd_map d)).
End DocExp.

(* ---------------- contention / mutex ---------------- *)
Inductive kitem := KRec (delay count : string) (addrs : list string) | KSkip (line : string).
Record kdoc := { kd_header : string; kd_attrs : list (string * string); kd_items : list kitem; kd_map : mapsec }.

Definition print_kitem (i : kitem) : string :=
  match i with KRec dl c a => dl ++ " " ++ c ++ " @" ++ hexes a | KSkip l => l end.
Definition print_attr (kv : string * string) : string := fst kv ++ " = " ++ snd kv.
Definition print_contention (d : kdoc) : string :=
  join_lines ([kd_header d] ++ map print_attr (kd_attrs d) ++ map print_kitem (kd_items d)
              ++ print_mapsec (kd_map d))%list.

(* last assignment of an attribute wins *)
Fixpoint attr_val (k : string) (l : list (string * string)) (dflt : Z) : Z :=
  match l with
  | [] => dflt
  | (k', v) :: r => attr_val k r (if String.eqb k k' then dec_val v else dflt)
  end.
Definition kd_period (d : kdoc) : Z := attr_val "sampling period" (kd_attrs d) 1.
Definition kd_hz (d : kdoc) : Z := attr_val "cycles/second" (kd_attrs d) 0.
Definition kd_duration (d : kdoc) : Z := wrap_i64 (wrap_i64 (attr_val "ms since reset" (kd_attrs d) 0 * 1000) * 1000).
Definition contention_samples (d : kdoc) : list rsample :=
  flat_map (fun i => match i with
                     | KRec dl c a => [{| rs_addrs := map (fun h => dec1 (addr_of h)) a;
                                          rs_vals := contention_values (kd_period d) (kd_hz d) (dec_val dl) (dec_val c);
                                          rs_bytes := None |}]
                     | KSkip _ => []
                     end) (kd_items d).
Definition convert_contention (d : kdoc) : profile :=
  finalize false {| pr_st := [mk_vt "contentions" "count"; mk_vt "delay" "nanoseconds"]; pr_pt := mk_vt "contentions" "count";
                    pr_period := kd_period d; pr_duration := kd_duration d; pr_samples := contention_samples d |}
           (mapsec_mappings (kd_map d)).

(* ---------------- threadz ---------------- *)
Record tblock := { tb_id : string; tb_name : string; tb_tid : string; tb_same : bool; tb_lines : list (list string) }.
Record tdoc := { td_pre : list string; td_threadz : option (string * list string); td_blocks : list tblock;
                 td_nostack : bool; td_map : mapsec }.

Definition thread_header (b : tblock) : string :=
  "--- Thread " ++ tb_id b ++ " (name: " ++ tb_name b ++ "/" ++ tb_tid b ++ ") stack: ---".
Definition print_tblock (b : tblock) : list string :=
  thread_header b :: (if tb_same b then ["  [same as previous thread]"] else map (fun l => " " ++ hexes l) (tb_lines b)).
Definition threadz_line (n : string) : string := "--- threadz " ++ n ++ " ---".
Definition print_thread (d : tdoc) : string :=
  join_lines (td_pre d
              ++ match td_threadz d with Some (n, junk) => threadz_line n :: junk | None => [] end
              ++ flat_map print_tblock (td_blocks d)
              ++ (if td_nostack d then ["---- no stack trace for 3 threads ----"] else [])
              ++ print_mapsec (td_map d))%list.

(* one sample per thread block with a stack; a same-as-previous (or empty) block adds one to the
   preceding sample; the leaf is not moved *)
Fixpoint thread_samples (bs : list tblock) (acc : list rsample) : list rsample :=
  match bs with
  | [] => rev acc
  | b :: r => thread_samples r (commit_block (tb_same b) (map addr_of (List.concat (tb_lines b))) acc)
  end.
Definition convert_thread (d : tdoc) : profile :=
  finalize true {| pr_st := [mk_vt "thread" "count"]; pr_pt := mk_vt "thread" "count"; pr_period := 1; pr_duration := 0;
                   pr_samples := thread_samples (td_blocks d) [] |} (mapsec_mappings (td_map d)).

(* ---------------- binary CPU ---------------- *)
Record pdoc := { pd_kind : Z (* 0 32-bit LE, 1 32-bit BE, 2 64-bit LE, 3 64-bit BE *); pd_period : Z;
                 pd_samples : list (Z * list Z); pd_eod : bool; pd_maps : list dmap }.

Fixpoint le_bytes (n : nat) (w : Z) : list Z :=
  match n with O => [] | S k => (w mod 256) :: le_bytes k (w / 256) end.
Definition put_word (kind : Z) (w : Z) : list Z :=
  if kind =? 0 then le_bytes 4 w else if kind =? 1 then rev (le_bytes 4 w)
  else if kind =? 2 then le_bytes 8 w else rev (le_bytes 8 w).
Definition put_words (kind : Z) (ws : list Z) : list Z := flat_map (put_word kind) ws.
Definition cpu_words (d : pdoc) : list Z :=
  ([0; 3; 0; pd_period d; 0]
   ++ flat_map (fun s => fst s :: Z.of_nat (List.length (snd s)) :: snd s) (pd_samples d)
   ++ (if pd_eod d then [0; 1; 0] else []))%list.
Definition print_cpu (d : pdoc) : string :=
  B (put_words (pd_kind d) (cpu_words d)) ++ (if pd_eod d then join_lines (map print_dmap (pd_maps d)) else "").

Definition cpu_rsample (period : Z) (s : Z * list Z) : rsample :=
  {| rs_addrs := thread_addrs (snd s); rs_vals := [wrap_i64 (fst s); wrap_i64 (wrap_i64 (fst s) * period)]; rs_bytes := None |}.
Definition convert_cpu (d : pdoc) : profile :=
  let period := wrap_i64 (wrap_i64 (pd_period d) * 1000) in
  finalize true {| pr_st := [mk_vt "samples" "count"; mk_vt "cpu" "nanoseconds"]; pr_pt := mk_vt "cpu" "nanoseconds";
                   pr_period := period; pr_duration := 0;
                   pr_samples := strip_frame (strip_frame (map (cpu_rsample period) (pd_samples d))) |}
           (if pd_eod d then flat_map dmap_mapping (pd_maps d) else []).

(* ---------------- decoders of the case format (harness/cmd/c14.go) ---------------- *)
Definition dmap_of (t : term) : dmap :=
  {| dm_kind := gz (gn t 0); dm_start := gs (gn t 1); dm_limit := gs (gn t 2); dm_perm := gs (gn t 3); dm_offset := gs (gn t 4);
     dm_dev := gs (gn t 5); dm_inode := gs (gn t 6); dm_file := gs (gn t 7); dm_buildid := gs (gn t 8) |}.
Definition mapsec_of (t : term) : mapsec :=
  {| ms_present := gb (gn t 0); ms_sentinel := gz (gn t 1); ms_entries := map dmap_of (gl (gn t 2)) |}.
Definition citem_of (t : term) : citem :=
  if gz (gn t 0) =? 0 then CRec (gs (gn t 1)) (gss (gn t 2)) else CSkip (gs (gn t 1)).
Definition cdoc_of (t : term) : cdoc :=
  {| cd_pre := gss (gn t 0); cd_type := gs (gn t 1); cd_total := gs (gn t 2); cd_items := map citem_of (gl (gn t 3));
     cd_map := mapsec_of (gn t 4) |}.
Definition hitem_of (t : term) : hitem :=
  if gz (gn t 0) =? 0 then HRec (gs (gn t 1)) (gs (gn t 2)) (gs (gn t 3)) (gs (gn t 4)) (gss (gn t 5)) else HSkip (gs (gn t 1)).
Definition hdoc_of (t : term) : hdoc :=
  {| hd_name := gs (gn t 0); hd_h1 := gs (gn (gn t 1) 0); hd_h2 := gs (gn (gn t 1) 1); hd_h3 := gs (gn (gn t 1) 2);
     hd_h4 := gs (gn (gn t 1) 3); hd_rate := gs (gn t 2); hd_items := map hitem_of (gl (gn t 3)); hd_map := mapsec_of (gn t 4);
     hd_lead := gs (gn t 5) |}.
Definition kitem_of (t : term) : kitem :=
  if gz (gn t 0) =? 0 then KRec (gs (gn t 1)) (gs (gn t 2)) (gss (gn t 3)) else KSkip (gs (gn t 1)).
Definition kdoc_of (t : term) : kdoc :=
  {| kd_header := gs (gn t 0); kd_attrs := map (fun e => (gs (gn e 0), gs (gn e 1))) (gl (gn t 1));
     kd_items := map kitem_of (gl (gn t 2)); kd_map := mapsec_of (gn t 3) |}.
Definition tblock_of (t : term) : tblock :=
  {| tb_id := gs (gn t 0); tb_name := gs (gn t 1); tb_tid := gs (gn t 2); tb_same := gb (gn t 3);
     tb_lines := map gss (gl (gn t 4)) |}.
Definition tdoc_of (t : term) : tdoc :=
  {| td_pre := gss (gn t 0);
     td_threadz := match gl (gn t 1) with [n; j] => Some (gs n, gss j) | _ => None end;
     td_blocks := map tblock_of (gl (gn t 2)); td_nostack := gb (gn t 3); td_map := mapsec_of (gn t 4) |}.
Definition pdoc_of (t : term) : pdoc :=
  {| pd_kind := gz (gn t 0); pd_period := gz (gn t 1);
     pd_samples := map (fun s => (gz (gn s 0), gzs (gn s 1))) (gl (gn t 2)); pd_eod := gb (gn t 3);
     pd_maps := map dmap_of (gl (gn t 4)) |}.
