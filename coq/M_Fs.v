(* File-system model for the crash-atomicity clause of C19.
   State: path |-> contents, plus the table of open descriptors (fd |-> path it was opened on).
   Operations are the SUCCESSFUL system calls the implementation issues while saving settings;
   the list is recovered at run time from an strace of writeSettings (lib/c19_fs.py).
   A crash (kill) happens between two operations, or inside a write after any number of bytes.
   rename(2) is atomic (trusted OS semantics).  No proofs in this file. *)
From Coq Require Export List ZArith String Ascii Bool.
From PV Require Export Base.Str.
Export ListNotations.
Open Scope string_scope.
Open Scope Z_scope.

Inductive fop :=
| FMkdir (p : string)
| FOpen (fd : Z) (p : string) (creat trunc : bool)
| FWrite (fd : Z) (d : string)
| FMeta (fd : Z)                (* fchmod, fsync, fstat ... : no effect on contents *)
| FClose (fd : Z)
| FRename (src dst : string)
| FUnlink (p : string).

Record fsys := { files : list (string * string); fds : list (Z * string) }.

Fixpoint fget (l : list (string * string)) (p : string) : option string :=
  match l with
  | [] => None
  | (k, v) :: r => if String.eqb k p then Some v else fget r p
  end.
Definition fdel (l : list (string * string)) (p : string) : list (string * string) :=
  filter (fun kv => negb (String.eqb (fst kv) p)) l.
Definition fput (l : list (string * string)) (p v : string) : list (string * string) :=
  (p, v) :: fdel l p.

Fixpoint fd_path (l : list (Z * string)) (fd : Z) : option string :=
  match l with
  | [] => None
  | (k, v) :: r => if k =? fd then Some v else fd_path r fd
  end.
Definition fd_close (l : list (Z * string)) (fd : Z) : list (Z * string) :=
  filter (fun kv => negb (fst kv =? fd)) l.

Definition content (s : fsys) (p : string) : option string := fget (files s) p.

Definition step (s : fsys) (o : fop) : fsys :=
  match o with
  | FMkdir _ => s
  | FOpen fd p creat trunc =>
      let fl := match fget (files s) p with
                | Some _ => if trunc then fput (files s) p "" else files s
                | None => if creat then fput (files s) p "" else files s
                end in
      {| files := fl; fds := (fd, p) :: fd_close (fds s) fd |}
  | FWrite fd d =>
      match fd_path (fds s) fd with
      | Some p => match fget (files s) p with
                  | Some old => {| files := fput (files s) p (old ++ d); fds := fds s |}
                  | None => s
                  end
      | None => s
      end
  | FMeta _ => s
  | FClose fd => {| files := files s; fds := fd_close (fds s) fd |}
  | FRename src dst =>
      match fget (files s) src with
      | Some v => {| files := fput (fdel (files s) src) dst v; fds := fds s |}
      | None => s
      end
  | FUnlink p => {| files := fdel (files s) p; fds := fds s |}
  end.

Definition run (s : fsys) (ops : list fop) : fsys := fold_left step ops s.

(* states in which a kill between two system calls can leave the disk: after every prefix *)
Fixpoint prefix_states (s : fsys) (ops : list fop) : list fsys :=
  s :: match ops with [] => [] | o :: r => prefix_states (step s o) r end.

(* ---- the protocol class: nothing but ONE rename ever changes what [target] names *)
Definition fd_on (s : fsys) (p : string) : bool := existsb (fun kv => String.eqb (snd kv) p) (fds s).

Definition renames_onto (target : string) (o : fop) : bool :=
  match o with FRename _ dst => String.eqb dst target | _ => false end.

(* [renamed] = the rename onto target has already happened *)
Definition safe_op (target : string) (renamed : bool) (s : fsys) (o : fop) : bool :=
  match o with
  | FMkdir _ | FMeta _ | FClose _ => true
  (* another path may be opened for reading, or created/opened for writing only if it starts EMPTY
     (O_TRUNC, or O_EXCL which lib/c19_fs.py reports as trunc): a leftover of an earlier, killed save
     under the same name must not survive into what is renamed over the target *)
  | FOpen _ p creat trunc => (negb (String.eqb p target) && (negb creat || trunc)) || (negb creat && negb trunc)
  | FWrite fd _ => match fd_path (fds s) fd with Some p => negb (String.eqb p target) | None => true end
  | FUnlink p => negb (String.eqb p target)
  | FRename src dst =>
      negb (String.eqb src target) &&
      (if String.eqb dst target
       then negb renamed && negb (fd_on s src) && negb (fd_on s target)
       else true)
  end.

Fixpoint protocol_ok (target : string) (renamed : bool) (s : fsys) (ops : list fop) : bool :=
  match ops with
  | [] => true
  | o :: r => safe_op target renamed s o
              && protocol_ok target (renamed || renames_onto target o) (step s o) r
  end.
