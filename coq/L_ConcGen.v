(* C20 -- the general theorems instantiated with event lists produced by the translator
   (stated for arbitrary tables; P_C20.v applies them to Gen_LockEvents). *)
From PV Require Import M_Conc S_Conc L_Conc.
Open Scope string_scope.

Section Gen.
  Variable funcs : list (string * list gev).
  Variable tab : list (string * gkind).
  Variable roots : list string.

  (* a thread of the scanned source: idle, or running (the inlined body of) one thread root *)
  Definition source_thread (t : list ev) : Prop :=
    t = [] \/ exists r, In r roots /\ t = thread_of funcs r.
  Definition source_thread_single (t : list ev) : Prop :=
    t = [] \/ exists r, In r (single_roots funcs roots) /\ t = thread_of funcs r.

  Definition g0 := guards_of tab false.

  Hypothesis H : roots_ok funcs tab false roots = true.

  Lemma source_wl : forall t, source_thread t -> well_locked g0 t = true.
  Proof.
    intros t [->|[r [Hr ->]]]; [reflexivity|].
    unfold roots_ok in H. rewrite forallb_forall in H. apply H. exact Hr.
  Qed.

  Lemma source_sl : forall t, source_thread_single t -> single_lock t = true.
  Proof.
    intros t [->|[r [Hr ->]]]; [reflexivity|].
    unfold single_roots in Hr. apply filter_In in Hr. destruct Hr as [_ Hr]. exact Hr.
  Qed.

  Lemma single_sub t : source_thread_single t -> source_thread t.
  Proof.
    intros [->|[r [Hr ->]]]; [left; reflexivity | right; exists r; split; [|reflexivity]].
    unfold single_roots in Hr. apply filter_In in Hr. destruct Hr as [Hr _]. exact Hr.
  Qed.

  Lemma gen_mutex_lemma :
    forall progs s i j m, (forall i, source_thread (progs i)) -> reach progs s ->
      In m (th_h (ths s i)) -> In m (th_h (ths s j)) -> i = j.
  Proof.
    intros progs s i j m Hp Hr. apply (mutex_lemma g0 progs s i j m); [|exact Hr].
    intros k. apply source_wl. apply Hp.
  Qed.

  Lemma gen_race_free_lemma :
    forall progs s i j v wi wj, (forall i, source_thread (progs i)) -> reach progs s ->
      i <> j -> g0 v <> None -> next_access s i v wi -> next_access s j v wj -> (wi || wj)%bool = true -> False.
  Proof.
    intros progs s i j v wi wj Hp Hr. apply (race_free_lemma g0 progs s i j v wi wj); [|exact Hr].
    intros k. apply source_wl. apply Hp.
  Qed.

  Lemma gen_no_deadlock_lemma :
    forall progs s, (forall i, source_thread_single (progs i)) -> reach progs s ->
      (exists i, th_k (ths s i) <> []) -> exists s', step s s'.
  Proof.
    intros progs s Hp Hr. apply (no_deadlock_lemma g0 progs s); [| |exact Hr].
    - intros k. apply source_wl. apply single_sub. apply Hp.
    - intros k. apply source_sl. apply Hp.
  Qed.
End Gen.
